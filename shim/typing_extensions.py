try:
    from typing import Literal
except ImportError:
    class _L:
        def __getitem__(self, item): return object
    Literal = _L()
