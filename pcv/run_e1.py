"""Fan the harnesses of one property out over configurations x worker processes, merge, cross-check with cvc5."""
from __future__ import annotations

import json
import os
import shutil
import subprocess
import sys
import tempfile
import time
from concurrent.futures import ThreadPoolExecutor

from . import config

PY = sys.executable
CVC5 = "/usr/bin/cvc5"


def list_harnesses(tables310):
    """Import the contracts under one configuration to read the registry."""
    config.apply_config(tables310)
    import contracts  # noqa: F401
    from .registry import HARNESSES
    return HARNESSES


def run(prop, tier, seed, workdir, only=None, engines=("E1", "E2"), nproc=16, repo=None):
    from .registry import versions_of
    t0 = time.time()
    tables, table_src = {}, {}
    for v in config.VERSIONS:
        tables[v], table_src[v] = config.export_tables(v)
    H = list_harnesses(tables["3.10"])
    sel = [h for h in H.values() if (prop in h.props or prop == "ALL") and h.engine in engines and (only is None or only in h.name)]
    jobs_by_ver = {v: [] for v in config.VERSIONS}
    for h in sel:
        for v in versions_of(h, config.VERSIONS):
            jobs_by_ver[v].append(h)
    # split each version's list into chunks balanced by declared cost
    total_cost = sum(h.cost for v in jobs_by_ver for h in jobs_by_ver[v]) or 1
    jobs = []
    for v, hs in jobs_by_ver.items():
        if not hs:
            continue
        k = max(1, min(len(hs), round(nproc * sum(h.cost for h in hs) / total_cost)))
        bins = [[0, []] for _ in range(k)]
        for h in sorted(hs, key=lambda h: -h.cost):
            b = min(bins, key=lambda b: b[0])
            b[0] += h.cost
            b[1].append(h.name)
        for i, (_, names) in enumerate(bins):
            if names:
                jobs.append({"ver": v, "tables": tables[v], "harnesses": names, "seed": seed,
                             "export": "all" if tier == "thorough" else "sample",
                             "repo": repo or config.REPO,
                             "max_seconds": 3000 if tier == "thorough" else 150, "id": "%s-%d" % (v, i)})
    os.makedirs(workdir, exist_ok=True)
    env = dict(os.environ)
    env["PYTHONPATH"] = config.VERIF + os.pathsep + (repo or config.REPO)
    env["PYTHONDONTWRITEBYTECODE"] = "1"
    env["PYTHONHASHSEED"] = "0"      # deterministic set/dict iteration in the workers
    env["PCV_REPO"] = repo or config.REPO
    env["PCV_TIER"] = tier

    def launch(job):
        jf = os.path.join(workdir, "job-%s.json" % job["id"])
        of = os.path.join(workdir, "out-%s.json" % job["id"])
        json.dump(job, open(jf, "w"))
        p = subprocess.run([PY, "-m", "pcv.worker", jf, of], env=env, capture_output=True, text=True, cwd=config.VERIF)
        if p.returncode != 0 or not os.path.exists(of):
            return {"results": [{"harness": n, "config": job["ver"], "engine": "E1", "expect": "proved", "props": [], "functions": [],
                                 "assumes": [], "notes": "", "paths": 0, "queries": 0, "obligations": [], "smt2": [], "rewrites": [],
                                 "wall_s": 0, "engine_error": True,
                                 "undecided_reason": "worker crashed: " + (p.stderr or "")[-1500:]} for n in job["harnesses"]],
                    "functions": {}}
        return json.load(open(of))

    results, functions = [], {}
    with ThreadPoolExecutor(max_workers=nproc) as ex:
        for out in ex.map(launch, jobs):
            results.extend(out["results"])
            functions.update(out["functions"])

    # second back end: cvc5 on the exported queries
    queries = [(r["harness"], r["config"], q) for r in results for q in r.get("smt2", [])]

    def cvc5(item):
        hname, ver, q = item
        txt = q["text"]
        if "(set-logic" not in txt:
            txt = "(set-logic ALL)\n" + txt
        fd, path = tempfile.mkstemp(suffix=".smt2", dir=workdir)
        os.write(fd, txt.encode())
        os.close(fd)
        t = time.time()
        try:
            p = subprocess.run([CVC5, "--strings-exp", "--tlimit=10000", path], capture_output=True, text=True, timeout=30)
            ans = (p.stdout.strip().splitlines() or ["error"])[0]
            if ans not in ("sat", "unsat", "unknown"):
                ans = "abstain(" + (p.stdout + p.stderr).strip()[:80].replace("\n", " ") + ")"
        except subprocess.TimeoutExpired:
            ans = "unknown"
        os.unlink(path)
        return {"harness": hname, "config": ver, "obligation": q["name"], "z3": q["z3"], "cvc5": ans, "cvc5_s": round(time.time() - t, 3)}

    cross = []
    if queries and os.path.exists(CVC5):
        with ThreadPoolExecutor(max_workers=nproc) as ex:
            cross = list(ex.map(cvc5, queries))
    for r in results:
        r.pop("smt2", None)
    return {"results": results, "functions": functions, "cross": cross, "table_sources": table_src,
            "wall_s": round(time.time() - t0, 2), "n_jobs": len(jobs)}


def summarize(e1):
    """-> dict with lists: proved, failed, undecided, canary problems, disagreements."""
    proved, failed, undecided, errors = [], [], [], []
    for r in e1["results"]:
        tag = "%s@%s" % (r["harness"], r["config"])
        if r.get("engine_error"):
            errors.append((tag, r["undecided_reason"]))
            continue
        obs = r["obligations"]
        if r["expect"] == "failed":   # canary: at least one obligation must be refuted
            if not any(o["status"] == "failed" for o in obs):
                if r.get("undecided_reason") or not obs or any(o["status"] == "undecided" for o in obs):
                    undecided.append((tag, "canary undecided: %s" % (r.get("undecided_reason") or "no verdict"), r))
                else:
                    errors.append((tag, "canary did not fail: the engine accepted a known-false claim"))
            continue
        if r.get("undecided_reason"):
            undecided.append((tag, r["undecided_reason"], r))
        if not obs and not r.get("undecided_reason"):
            errors.append((tag, "zero obligations"))
        for o in obs:
            name = "%s/%s@%s" % (r["harness"], o["name"], r["config"])
            if o["status"] == "proved":
                proved.append((name, o, r))
            elif o["status"] == "failed" and r.get("soft"):
                undecided.append((name, "sufficient syntactic condition no longer holds (proof lost, nothing refuted): %s" % (o.get("detail") or ""), r))
            elif o["status"] == "failed":
                failed.append((name, o, r))
            else:
                undecided.append((name, o.get("detail") or "no hit / unknown", r))
    disagreements = [c for c in e1["cross"] if (c["z3"] == "unsat" and c["cvc5"] == "sat") or (c["z3"] == "sat" and c["cvc5"] == "unsat")]
    return {"proved": proved, "failed": failed, "undecided": undecided, "errors": errors, "disagreements": disagreements}


if __name__ == "__main__":
    import argparse
    ap = argparse.ArgumentParser()
    ap.add_argument("prop")
    ap.add_argument("--tier", default="quick")
    ap.add_argument("--only")
    ap.add_argument("--seed", type=int, default=0)
    ap.add_argument("-v", action="store_true")
    a = ap.parse_args()
    wd = tempfile.mkdtemp(prefix="pcv-")
    try:
        e1 = run(a.prop, a.tier, a.seed, wd, only=a.only)
    finally:
        shutil.rmtree(wd, ignore_errors=True)
    s = summarize(e1)
    print("jobs=%d wall=%.1fs proved=%d failed=%d undecided=%d errors=%d cvc5: %d checked, %d agree, %d disagree" % (
        e1["n_jobs"], e1["wall_s"], len(s["proved"]), len(s["failed"]), len(s["undecided"]), len(s["errors"]),
        len(e1["cross"]), sum(1 for c in e1["cross"] if c["z3"] == c["cvc5"]), len(s["disagreements"])))
    for name, o, r in s["failed"]:
        print("FAILED", name, "inputs=", o.get("inputs"), "detail=", o.get("detail"))
    for u in s["undecided"]:
        print("UNDECIDED", u[0], str(u[1])[:400])
    for e in s["errors"]:
        print("ERROR", e[0], e[1][-1200:])
    if a.v:
        for name, o, r in s["proved"]:
            print("proved", name, o["hits"], o["solver_s"])
        for c in e1["cross"]:
            print("cvc5", c)
