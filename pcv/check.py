"""Entry point behind /verif/check: decide one property on /repo's current working tree.

exit 0  held on everything explored (KNOWN-FINDING lines for listed findings)
exit 1  violation (line `VIOLATION property=<id> replay=<path>`)
exit 3  checker error (back ends disagree, zero obligations, a canary passed, engine crash) - never mapped to a violation
"""
from __future__ import annotations

import argparse
import hashlib
import json
import os
import shutil
import subprocess
import sys
import tempfile
import time
from concurrent.futures import ThreadPoolExecutor

from . import config, run_e1

VERIF = config.VERIF
PROPS = ["C%02d" % i for i in range(1, 17)]


def load_json(path, default):
    try:
        return json.load(open(path))
    except Exception:
        return default


# ------------------------------------------------------------------------------------------------ E3
def run_e3(prop, tier, seed, workdir, versions, repo, jobs_per=4, part="all", extra_args=()):
    env = dict(os.environ)
    env["PYTHONPATH"] = os.pathsep.join([os.path.join(VERIF, "shim"), repo, VERIF])
    env["PYTHONDONTWRITEBYTECODE"] = "1"
    env["PCV_REPO"] = repo
    env["PYTHONHASHSEED"] = "0"
    env["PCV_WORKDIR"] = workdir
    env["PCV_TIER"] = tier

    def one(ver):
        exe = config.interpreter(ver)
        if exe is None:
            return ver, {"missing_interpreter": True}
        out = os.path.join(workdir, "e3-%s-%s.json" % (prop, ver))
        cmd = [exe, "-m", "rtc.run", "--prop", prop, "--tier", tier, "--seed", str(seed), "--out", out, "--jobs", str(jobs_per), "--part", part] + list(extra_args)
        p = subprocess.run(cmd, env=env, capture_output=True, text=True, cwd=VERIF)
        if not os.path.exists(out):
            return ver, {"crash": "rtc.run produced no output: rc=%s %s" % (p.returncode, (p.stderr or "")[-1500:])}
        return ver, json.load(open(out))

    with ThreadPoolExecutor(max_workers=len(versions)) as ex:
        return dict(ex.map(one, versions))


# ------------------------------------------------------------------------------------------------ known findings
def load_findings():
    return load_json(os.path.join(VERIF, "known_findings.json"), {"findings": []})["findings"]


def match_finding(findings, prop, failure):
    """failure: dict with keys check, tags (list), python.  A finding matches when it is open, for this property, names this check
    and all of its `tags` are among the failure's tags (tags are computed from the *input* by rtc/findings.py)."""
    for f in findings:
        if f.get("status") != "open" or f["property"] != prop:
            continue
        m = f["match"]
        if m.get("check") not in (None, failure.get("check")):
            continue
        if "python" in m and failure.get("python") not in m["python"]:
            continue
        if all(t in failure.get("tags", []) for t in m.get("tags", [])):
            return f
    return None


# ------------------------------------------------------------------------------------------------ main
def main(argv=None):
    ap = argparse.ArgumentParser()
    ap.add_argument("prop")
    ap.add_argument("--tier", default=os.environ.get("VERIF_TIER", "quick"))
    ap.add_argument("--seed", type=int, default=int(os.environ.get("VERIF_SEED", "0")))
    ap.add_argument("--replay")
    ap.add_argument("--repo", default=os.environ.get("PCV_REPO", "/repo"))
    ap.add_argument("--no-e3", action="store_true")
    ap.add_argument("--no-e1", action="store_true")
    a = ap.parse_args(argv)
    if a.replay or a.prop == "--replay":
        from . import replay
        return replay.main(a.replay, a.repo)
    prop, tier, seed, repo = a.prop, a.tier, a.seed, a.repo
    config.REPO = repo
    os.environ["PCV_REPO"] = repo
    t0 = time.time()
    workdir = tempfile.mkdtemp(prefix="pcv-%s-" % prop, dir=os.environ.get("TMPDIR", "/tmp"))
    try:
        rc = decide(prop, tier, seed, repo, workdir, a, t0)
    finally:
        shutil.rmtree(workdir, ignore_errors=True)
    return rc


def decide(prop, tier, seed, repo, workdir, a, t0):
    from . import evidence, plan
    pl = plan.PLAN[prop]
    findings = load_findings()
    baseline = load_json(os.path.join(VERIF, "baseline_obligations.json"), {})
    lines, violations, known_hits, checker_errors, undecided = [], [], [], [], []

    # ---- E1 / E2
    e1 = {"results": [], "functions": {}, "cross": [], "table_sources": {}, "wall_s": 0, "n_jobs": 0}
    summ = {"proved": [], "failed": [], "undecided": [], "errors": [], "disagreements": []}
    if not a.no_e1:
        e1 = run_e1.run(prop, tier, seed, os.path.join(workdir, "e1"), repo=repo)
        summ = run_e1.summarize(e1)
    for tag, why in summ["errors"]:
        checker_errors.append("E1 %s: %s" % (tag, why[-600:]))
    for d in summ["disagreements"]:
        checker_errors.append("back ends disagree on %s/%s@%s: z3=%s cvc5=%s" % (d["harness"], d["obligation"], d["config"], d["z3"], d["cvc5"]))
    for u in summ["undecided"]:
        undecided.append("%s: %s" % (u[0], str(u[1])[:300]))

    # ---- E3
    e3 = {}
    if not a.no_e3 and pl.get("e3", True):
        e3 = run_e3(prop, tier, seed, workdir, pl.get("e3_versions", config.VERSIONS), repo, jobs_per=pl.get("e3_jobs", 4))
    from . import custom
    if not a.no_e3 and prop in custom.CUSTOM:
        try:
            extra = custom.CUSTOM[prop](tier, seed, workdir, repo)
            for ver, res in extra.items():
                tgt = e3.setdefault(ver, {"parts": {}})
                tgt.setdefault("parts", {}).update(res.get("parts", {}))
                if res.get("crash"):
                    tgt["crash"] = res["crash"]
        except Exception as e:
            import traceback
            checker_errors.append("custom step for %s crashed: %s %s" % (prop, e, traceback.format_exc()[-600:]))
    e3_fail = []
    for ver, res in sorted(e3.items()):
        if res.get("missing_interpreter"):
            lines.append("NOTE interpreter %s missing: its bounded checks were skipped" % ver)
            continue
        if res.get("crash"):
            checker_errors.append("E3 %s crashed: %s" % (ver, res["crash"][-800:]))
            continue
        for pname, part in res.get("parts", {}).items():
            for f in part.get("failures", []):
                f = dict(f, python=ver, part=pname)
                if f.get("checker_error"):
                    checker_errors.append("E3 %s %s checker error on %s: %s" % (ver, f.get("check"), f.get("unit"), " | ".join(f["msgs"])[-600:]))
                else:
                    e3_fail.append(f)

    # ---- classify concrete failures against the known findings
    new_e3 = []
    for f in e3_fail:
        k = match_finding(findings, prop, f)
        if k:
            known_hits.append((k, f))
        else:
            new_e3.append(f)

    # ---- E1 failures: replay, then classify
    from . import replay as rp
    os.makedirs(os.path.join(VERIF, "replays"), exist_ok=True)
    for name, o, r in summ["failed"]:
        rec = {"property": prop, "obligation": name, "engine": r.get("engine", "E1"), "config": {"python": r["config"]},
               "functions": r["functions"], "inputs": o.get("inputs"), "clause": o["name"], "solver": {"backend": o["backend"], "result": "sat", "model": o.get("model"), "time_s": o["solver_s"]},
               "detail": o.get("detail"), "known_finding": None, "kind": "e1"}
        kf = None
        for f in findings:
            if f.get("status") == "open" and f["property"] == prop and f["match"].get("obligation") and f["match"]["obligation"] in name:
                kf = f
        rep = rp.replay_e1(rec, repo, workdir)
        rec["replay_result"] = rep
        if kf:
            known_hits.append((kf, {"obligation": name}))
            continue
        reproduced = bool(rep and rep.get("violated"))
        same_prop_concrete = bool(new_e3)
        path = rp.write(rec, prop, name)
        in_baseline = baseline.get(name.split("@")[0] + "@" + r["config"], baseline.get(name)) == "proved" or not baseline
        if not in_baseline:
            # a *new* store site inside a function whose whole frame contract held on the pinned tree
            import re as _re
            m = _re.match(r"(frame\.store_sites/frame\[[^\]]+\])", name)
            if m and any(k.startswith(m.group(1)) for k in baseline):
                in_baseline = True
            # a failed frame obligation is a syntactic fact about the tree (a store to module state, or a call listed as changing interpreter-wide state): it is
            # decided whether or not the function existed on the pinned tree; writes of a contract-less helper to its own parameters are undecided, not failed
            if name.startswith("frame.store_sites/frame[") and ("external call" in name or "global statement" in name or "'G'" in str(o.get("detail"))):
                in_baseline = "decided"
            # a bounded harness runs the code on concrete, well-formed inputs that passed on the pinned tree: an exception there is an outcome
            if r.get("engine") == "E2" and "/no_unexpected_exception@" in name and any(k.startswith(r["harness"] + "/") for k in baseline):
                in_baseline = True
        if reproduced or same_prop_concrete:
            violations.append((path, "%s obligation failed: %s" % (r.get("engine", "E1"), name), ""))
        elif in_baseline:
            why = "a fact of the tree's text, decided without the pinned tree" if in_baseline == "decided" else "was proved on the pinned tree"
            violations.append((path, "%s obligation failed (%s): %s" % (r.get("engine", "E1"), why, name), " no-failing-input-found"))
        else:
            undecided.append("%s: failed but neither in the baseline nor reproducible - reported as undecided" % name)
    for f in new_e3:
        rec = {"property": prop, "kind": "e3", "engine": "E3", "config": {"python": f["python"]}, "check": f["check"], "part": f.get("part"),
               "unit": f.get("unit"), "path": f.get("path"), "recipe": f.get("recipe"), "observed": f["msgs"], "tags": f.get("tags", []), "known_finding": None}
        path = rp.write(rec, prop, "%s-%s-%s" % (f["check"], f.get("unit"), f["python"]))
        violations.append((path, "E3 %s on %s (py%s): %s" % (f["check"], f.get("unit"), f["python"], f["msgs"][0][:300]), ""))

    # ---- report
    ev = evidence.build(prop, tier, seed, pl, e1, summ, e3, known_hits, violations, undecided, checker_errors, time.time() - t0)
    evdir = os.environ.get("PCV_EVIDENCE_DIR") or os.path.join(VERIF, "evidence")
    os.makedirs(evdir, exist_ok=True)
    json.dump(ev, open(os.path.join(evdir, "%s.json" % prop), "w"), indent=1, default=repr)
    for l in lines:
        print(l)
    seen = set()
    for k, f in known_hits:
        if k["id"] not in seen:
            seen.add(k["id"])
            print("KNOWN-FINDING: property=%s %s" % (prop, k["what"]))
    for u in undecided[:20]:
        print("UNDECIDED %s" % u)
    print("%s tier=%s: E1/E2 obligations=%d proved=%d failed=%d undecided=%d | E3 %s | %.1fs" % (
        prop, tier, len(summ["proved"]) + len(summ["failed"]) + len(summ["undecided"]), len(summ["proved"]), len(summ["failed"]), len(summ["undecided"]),
        " ".join("py%s:%s" % (v, sum(p.get("evaluations", 0) for p in r.get("parts", {}).values())) for v, r in sorted(e3.items())), time.time() - t0))
    if checker_errors:
        for c in checker_errors[:10]:
            print("CHECKER-ERROR %s" % c)
    if violations:
        shown = set()
        for path, what, suffix in violations[:25]:
            print("  violation: %s" % what)
            print("VIOLATION property=%s replay=%s%s" % (prop, path, suffix))
        return 1
    if checker_errors:
        return 3
    return 0


if __name__ == "__main__":
    sys.exit(main())
