"""Per-property plan: claimed level, what the run-time engine does, explanation and property-specific assumptions."""
from __future__ import annotations

PLAN = {}


def plan(pid, level, explanation, **kw):
    PLAN[pid] = dict(level=level, explanation=explanation, **kw)


for _p in ["C%02d" % i for i in range(1, 17)]:
    plan(_p, "other", "composition of deductively proved kernels (E1) with bounded checks (E2/E3); see DESIGN.md section 4")
