"""Per-property plan: claimed level, explanation of what decides it, property-specific trusted base and assumptions."""
from __future__ import annotations

PLAN = {}

E3_RULE = ("E1/E2: one case per named obligation per interpreter configuration (distinct = distinct obligation names). "
           "E3: one evaluation per (code object or generated input, check); distinct = distinct code objects (digest of bytecode, names and constant count) or distinct generated inputs; "
           "an input is non-trivial when it is a compiled code object or a generated case that exercises the property's own clause (the generators contain no empty cases)")


def plan(pid, level, explanation, **kw):
    kw.setdefault("rule", E3_RULE)
    PLAN[pid] = dict(level=level, explanation=explanation, **kw)


WF = ("WF(c): even-length co_code; operands index inside their tables; jump targets are instruction starts; argument counts fit co_varnames "
      "(validated on every corpus code object by E3's oracles, never assumed silently)")

plan("C01", "other",
     "Lemma over contracts: operand bytes (parse/emit inverse for every 32-bit operand, E1), operand tables (decoder/encoder simulation step with key-duplicate entries, E1, induction over the "
     "occurrence sequence is the meta-step), jump operands decode to their target (E1 fragment), header glue of to_code_data/from_code_data (E1 modular over a symbolic flag set), flags and "
     "argument pairs inverse (E1), line-table stages inverse and sum-preserving (E1 with loop cut-points); the composed line pipeline is bounded symbolic (E2) and the whole API is checked "
     "attribute-by-attribute on real 3.7-3.10 interpreters (E3).  Not a proof of the composition: bytes_to_blocks/blocks_to_bytes are covered by kernels, fragments and call-site contracts.",
     assumptions=[WF], trusted_base=["CPython 3.7.16/3.8.18/3.9.18/3.10.13 as the oracle of E3 (compile, code attributes)"])
plan("C02", "other",
     "Every decoding step is stated against CPython's own reading: _parse_bytes = ceval's 32-bit operand folding (E1, all bytes), to_arg = dis classification and jump scaling per version over a "
     "symbolic opcode (E1), found_index returns table[index] (E1), call sites of bytes_to_blocks pass opcode/arg/next_offset and tables in order and take the line of the first code unit (E1 "
     "modular), collapse_items merge step neutral under CPython's reader (E1), per-offset lines of the pipeline equal the reader on assembler-model tables (E2); whole-function agreement with "
     "dis.get_instructions and co_lines on real interpreters (E3).",
     assumptions=[WF])
plan("C03", "other",
     "Encoder kernels proved (E1): FromArgs.add/__setitem__ abstract-view contract, jump update decodes to the target for both kinds and scalings, relaxation flag sticky, _instrsize is CPython's and "
     "monotone, emission loop inverse to CPython's folding, constant_key keeps CPython-distinct constants distinct (floats/complex over all binary64 pairs), from_arg docstring slot as a complete "
     "case analysis, expand_items sums/representability for unbounded deltas; to_tuple raise-or-exact and table seeding are bounded symbolic (E2); termination of the relaxation loop and the "
     "whole encoder are checked on hand-built block graphs straddling the operand-width boundaries on real interpreters with dis/co_lines/inspect as oracle (E3).",
     assumptions=["well-formed data: jump targets designate existing blocks, Freevar names occur in freevars, instruction names are opcodes of the interpreter, lines are ints on <= 3.9 (lnotab cannot express 'no line')"])
plan("C04", "other",
     "args_from_input equals CPython's co_varnames layout for all counts and all co_varnames lengths (E1, z3/cvc5 sequences, four flag cases), consumes exactly VARARGS/VARKEYWORDS (E1), round trip "
     "with args_to_input (E1); docstring = first constant iff str (also the empty string), kind iff flag, type None iff neither function flag: to_code_data modular over a symbolic flag set (E1); "
     "Args.parameters order/kinds and len(args) for groups of every length: the real args_to_parameters / Args.parameters / Args.__len__ run on symbolic-length groups (E1, generic-element rule for the map-only generators; distinct names as WF), additionally enumerated for <= 2 names per group (E2); agreement with inspect.signature / __doc__ / inspect.is*function on all signature shapes x scope kinds (E3).")
plan("C05", "other",
     "normalize postcondition per constructor with symbolic fields - every private field reset, every public field kept, recursively, idempotent (E1; structural induction is the meta-step) - plus "
     "the encoder contracts of C03 (table seeding, docstring slot, jump update).  'Executing both gives the same results, output, exceptions and line events' quantifies over CPython's evaluation "
     "loop, for which no contract is within reach: covered by the assumption that the VM depends only on the resolved instruction stream, tables and line map, and by a bounded stand-in (E3: "
     "symbolic stream comparison on the corpus; execution with stdout capture and sys.settrace on 28 programs).")
plan("C06", "other",
     "Idempotence and per-constructor reset of normalize (E1), the private fields enumerated against dataclasses.fields (E1 finite), decode invariance under table permutation via found_index's "
     "contract (E1); the history claim follows by induction from per-operation facts (C03 'equal up to normalization', C07 equality, idempotence) and is exercised on all histories up to length "
     "2 (3 in the thorough tier) and on table-permuted / padded / CO_NESTED variants built with code.replace (E3).")
plan("C07", "other",
     "Tag-dispatch consistency of the constant codec per constructor with symbolic payloads: plain JSON out (ints within +-2^53, finite floats, valid text, string keys) and exact decode, NaNs "
     "identified (E1, structural induction as meta-step; b64/literal_eval/int-str round trips are assumed contracts); every data-class position on representatives (E2); real json.dumps "
     "(allow_nan=False)/loads cycle, independent jsonschema validation against JSON_SCHEMA and strict to_code comparison over corpus and edge-value grid x positions (E3).  Schema conformance is "
     "bounded only.")
plan("C08", "other",
     "constant_key partition = CPython's constant-table partition with NaNs identified over all pairs of binary64 / complex / int values and across constructors (E1), Constant.__eq__ iff same "
     "override and same key, __hash__ hashes exactly the pair __eq__ compares and never a NaN (E1), all data classes frozen with immutable field types, the decoder's call-site contract stores only immutable values in the private instruction fields (bytes_to_blocks, E1 modular), every field the encoder reads "
     "participates in == and hash (E1 static; with determinism of to_code this is 'equal data => identical code'); the composition and route pairs against ctypes _PyCode_ConstantKey are bounded (E3).",
     assumptions=["builtin hash() respects == on tuples/str/bool/None/type objects/ints/non-NaN floats"])
plan("C09", "proof",
     "ToArgs.found_index on unbounded abstract tables: the recorded order is the first-use rank, an override is reported only if position != rank or an equal entry was found first at another index, "
     "and in that second case the encoder without the override provably returns a different index (so the override is justified in the property's sense); parameters and a docstring (also an empty "
     "one) are seeded as found first (call-site contract); additional_args yields exactly the never-found indices (inductive step on a generic index).  The property verbatim is additionally "
     "evaluated on decoded corpora and canonical re-encodings (E3, bounded).",
     assumptions=["induction over the operand occurrence sequence is a meta-step (base and step are machine-checked)"])
plan("C10", "other",
     "Stage contracts proved (E1): bytes<->items pointwise inverse, expand_items preserves cumulative deltas, emits only representable entries, no-line sections emit only -128 and lined ones never, "
     "for unbounded deltas (loop cut-points, ghost sums); collapse_items merge step neutral under CPython's reader.  The full pipeline equals the reader at every offset and re-encodes byte for byte "
     "on assembler-model tables with symbolic line deltas within stated bounds (E2); concrete sweeps through from_code/to_code on real code objects carrying the table, with co_lines / "
     "PyCode_Addr2Line as oracle (E3).  The assembler transcriptions are validated against the compiler on every corpus table.")
plan("C11", "proof",
     "For every 32-bit flag word (bit-vector): to_flags_data raises iff a bit outside the interpreter's defined flags is set, otherwise from_flags_data(to_flags_data(f)) == f; to_code_data returns "
     "only if every flag was consumed into a field (modular, all subsets of the defined flags) and from_code_data rebuilds exactly that set and passes the counts through; the header round-trip "
     "lemma composes the two.  The assumed contract of enum._decompose and the whole statement are also enumerated exhaustively on the real interpreters (E3: all 2^18 subsets in the thorough tier); hand-altered headers (single flag-bit flips, argument counts +-1 with and without a matching name, swapped counts) must be refused or reproduced exactly, also in a child interpreter started with -O, where guards written as assert do not exist (E3).",
     assumptions=["contract of enum._decompose (members whose bit is contained in the value; uncovered bits) - validated exhaustively by E3",
                  "rule 6 (generic-element rule) for the two accumulate-only member loops, side condition checked syntactically"])
plan("C12", "proof",
     "Static frame pass: every store site (subscript/attribute store, del, in-place operator, mutator call, call of a callee that modifies an argument) in the closure of from_code, to_code, "
     "normalize, to_json_data, from_json_data writes to an object allocated in the same call or to a parameter its contract lists; no caching decorator, global statement or store to module "
     "state, and every call into another module is on the list of assumed-pure callees - none changes an interpreter-wide setting (repeatability = determinism + empty frame).  "
     "Deep snapshots of arguments, results and interpreter-wide settings over repeated and interleaved calls are the bounded stand-in and the replay vehicle (E3).",
     assumptions=["the abstract interpretation's allocation/alias rules and the immutability of annotated scalar fields (mypy-clean library)"])
plan("C13", "other",
     "Block-building loop of bytes_to_blocks as an extracted fragment cut at its head over a symbolic-length instruction sequence: a block opens exactly at target offsets, no block is empty, the "
     "count equals the number of target offsets, no UnboundLocalError/ValueError path is feasible (E1); targets_set = {0} + every decoded jump target (E1 syntactic + to_arg and _parse_bytes "
     "contracts); an instruction is recorded at its first code unit, also when it has EXTENDED_ARG prefixes and is jumped to (E2 jump graphs on the real function); the step "
     "'every target is an instruction start' rests on WF and is checked against the target set computed from dis on corpora (E3).",
     assumptions=[WF])
plan("C14", "other",
     "CodeData.__iter__ by the generic-element rule - a generic operand of every kind at a generic position is yielded iff it is a Constant holding a CodeData, for instructions and for additional "
     "arguments - and all_code_data by structural induction (self first, then the subtree of every child), both E1; every arrangement over bounded shapes and depth 3 (E2).  That the operands and "
     "additional arguments together hold *every* constant of the code object is found_index/additional_args (C09).  Agreement with a recursive walk of co_consts - each nested object once, also "
     "when several instructions load it or none does - and equality with the stand-alone decoding of each nested code object on corpora (E3).")
plan("C15", "other",
     "Static reads-frame: the closure of the JSON codec and normalize references no interpreter-dependent name and imports only the data classes (E1, soft: a sufficient condition); documents "
     "written under each of 3.7-3.10 are loaded, re-dumped and normalized under each of 3.7-3.13 and compared canonically (E3).",
     e3_versions=[])
plan("C16", "other",
     "main verified modularly by a complete finite case split: 3^4 source-option shapes x 2^5 flag sets with stubbed externals carrying contracts and a ghost output log (E1, no solver needed): "
     "usage error (status 2) iff not exactly one source is given - argparse's exit/print_help/error and sys.argv are part of the stubbed contract -, the decoded code is the code of the "
     "program that was named (for -m: of that module, in a universe where every name is a package with a __main__), printed object = normalize(from_code(code)) or un-normalized, JSON = "
     "to_json_data of the same object, --dis-after disassembles its to_code(); real subprocess runs on each interpreter with stdout compared with the API's result (E3).",
     e3_jobs=1)
PLAN["C15"]["e3"] = False     # the orchestration in pcv/custom.py runs producers and consumers itself
