"""Replay files: written for every reported violation; `./check --replay <file>` re-executes one against the real code."""
from __future__ import annotations

import json
import os
import re
import subprocess
import sys

from . import config

VERIF = config.VERIF


def write(rec, prop, slug):
    d = os.environ.get("PCV_REPLAY_DIR") or os.path.join(VERIF, "replays")
    os.makedirs(d, exist_ok=True)
    slug = re.sub(r"[^A-Za-z0-9_.@-]+", "_", slug)[:120]
    path = os.path.join(d, "%s-%s.json" % (prop, slug))
    rec = dict(rec)
    rec["replay_cmd"] = "./check --replay %s" % path
    json.dump(rec, open(path, "w"), indent=1, default=repr)
    return path


def _run_rtc_replay(rec, repo, workdir):
    ver = rec.get("config", {}).get("python", "3.10")
    exe = config.interpreter(ver)
    if exe is None:
        return {"violated": None, "note": "interpreter %s missing" % ver}
    env = dict(os.environ)
    env["PYTHONPATH"] = os.pathsep.join([os.path.join(VERIF, "shim"), repo, VERIF])
    env["PYTHONDONTWRITEBYTECODE"] = "1"
    env["PCV_REPO"] = repo
    inp = os.path.join(workdir, "replay-in-%d.json" % (abs(hash(json.dumps(rec, default=repr))) % 10 ** 9))
    json.dump(rec, open(inp, "w"), default=repr)
    p = subprocess.run([exe, "-m", "rtc.replay", inp], env=env, capture_output=True, text=True, cwd=VERIF, timeout=600)
    try:
        return json.loads(p.stdout.strip().splitlines()[-1])
    except Exception:
        return {"violated": None, "note": "replayer crashed: rc=%s %s" % (p.returncode, (p.stderr or p.stdout)[-600:])}


def replay_e1(rec, repo, workdir):
    """Turn the counter-model of a failed E1/E2 obligation into a concrete call of the untouched function on the interpreter
    the configuration names (rtc/replay.py holds the per-harness input builders)."""
    try:
        return _run_rtc_replay(rec, repo, workdir)
    except Exception as e:  # pragma: no cover
        return {"violated": None, "note": "replay error: %s" % e}


def main(path, repo):
    import tempfile
    rec = json.load(open(path))
    wd = tempfile.mkdtemp(prefix="pcv-replay-")
    try:
        res = _run_rtc_replay(rec, repo, wd)
    finally:
        import shutil
        shutil.rmtree(wd, ignore_errors=True)
    print(json.dumps(res, indent=1))
    if res.get("violated"):
        print("VIOLATION property=%s replay=%s" % (rec.get("property"), path))
        return 1
    return 0 if res.get("violated") is False else 2
