"""Evidence writer: what this run actually covered (EVIDENCE.schema.json)."""
from __future__ import annotations

import z3

CHECKER = "python3-vt -m pcv.check {prop} --tier {tier}  (E1/E2: pcv proxy executor -> z3 %s in-process, /usr/bin/cvc5 1.0.3 on exported SMT-LIB; E3: rtc on /root/.pyenv 3.7-3.10)" % z3.get_version_string()

ENGINE_TRUSTED = [
    "pcv engine (proxies, path explorer, six rewrite rules, frame pass) - exercised by canaries and the mutation self-test",
    "z3 %s (cvc5 1.0.3 as second opinion on exported queries)" % z3.get_version_string(),
    "Python semantics assumed by the encoding: operator dispatch through dunder methods; int is Z with floor division; float is IEEE-754 binary64 with == as fp.eq; dict iteration is insertion ordered",
    "interpreter tables (dis/opcode/__future__) exported live from the pyenv interpreters",
]


def build(prop, tier, seed, pl, e1, summ, e3, known_hits, violations, undecided, checker_errors, wall):
    proved, failed, und = summ["proved"], summ["failed"], summ["undecided"]
    e1_proved = [p for p in proved if p[2].get("engine", "E1") == "E1"]
    e2_proved = [p for p in proved if p[2].get("engine") == "E2"]
    n_e1 = len([x for x in proved + failed if x[2].get("engine", "E1") == "E1"]) + len([u for u in und if isinstance(u[2], dict) and u[2].get("engine", "E1") == "E1" and "/" in u[0]])
    canaries = [r for r in e1["results"] if r["expect"] == "failed"]
    harnesses = [r for r in e1["results"] if r["expect"] != "failed"]
    solver_s = sum(o["solver_s"] for _, o, _ in proved + failed)
    rewrites = sorted({tuple(x) for r in e1["results"] for x in r.get("rewrites", [])})
    assumes = sorted({a for r in harnesses for a in r.get("assumes", [])})
    cross = e1["cross"]
    e3_parts = {}
    evaluations, distinct = 0, 0
    samples = []
    for ver, res in sorted(e3.items()):
        for pname, part in res.get("parts", {}).items():
            d = e3_parts.setdefault(pname, {"evaluations": 0, "per_python": {}, "failures": 0})
            d["evaluations"] += part.get("evaluations", 0)
            d["failures"] += len(part.get("failures", []))
            d["per_python"][ver] = {k: v for k, v in part.items() if k not in ("failures", "samples")}
            if "bound" in part:
                d["bound"] = part["bound"]
            evaluations += part.get("evaluations", 0)
            distinct += part.get("distinct_code_objects", part.get("distinct", 0))
            for s in part.get("samples", [])[:2]:
                if len(samples) < 8:
                    samples.append({"engine": "E3", "python": ver, "part": pname, "case": s})
    for name, o, r in e1_proved[:6]:
        samples.append({"engine": "E1", "obligation": name, "hits": o["hits"], "solver_s": o["solver_s"]})
    for name, o, r in e2_proved[:2]:
        samples.append({"engine": "E2", "obligation": name, "hits": o["hits"], "solver_s": o["solver_s"]})
    for name, o, r in failed[:3]:
        samples.append({"engine": r.get("engine", "E1"), "obligation": name, "status": "failed", "inputs": o.get("inputs")})
    cov = {
        "obligations": n_e1,
        "discharged": len(e1_proved),
        "checker_cmd": CHECKER.format(prop=prop, tier=tier),
        "trusted_base": ENGINE_TRUSTED + pl.get("trusted_base", []),
        "explanation": pl["explanation"],
        "evaluations": evaluations + len(proved) + len(failed),
        "distinct_nontrivial": distinct + len({n for n, _, _ in proved}),
        "rule": pl.get("rule", "E1: one case per named obligation per interpreter configuration (distinct = distinct obligation names); "
                               "E3: one evaluation per (code object or generated input, check); distinct = distinct code objects by bytecode/name-table digest or distinct generated inputs"),
        "samples": samples or [{"note": "no obligations ran"}],
        "exhaustive": False,
        "deductive": {
            "engine": "E1 pcv (unbounded; counts as proved)",
            "functions_under_contract": e1["functions"],
            "harnesses": [{"harness": r["harness"], "config": r["config"], "paths": r.get("paths"), "queries": r.get("queries"), "wall_s": r.get("wall_s"),
                           "obligations": [{"name": o["name"], "status": o["status"], "hits": o["hits"], "solver_s": o["solver_s"], "backend": o["backend"]} for o in r["obligations"]],
                           "notes": r.get("notes"), "undecided_reason": r.get("undecided_reason")} for r in harnesses if r.get("engine", "E1") == "E1"],
            "solver_time_s": round(solver_s, 3),
            "second_backend": {"queries": len(cross), "agree": sum(1 for c in cross if c["z3"] == c["cvc5"]),
                               "abstain": sum(1 for c in cross if c["cvc5"] not in ("sat", "unsat")), "disagree": len(summ["disagreements"])},
            "canaries": [{"harness": r["harness"], "config": r["config"], "refuted": any(o["status"] == "failed" for o in r["obligations"])} for r in canaries],
            "rewrites_applied": [list(x) for x in rewrites],
            "assumed_contracts_and_preconditions": assumes,
            "table_sources": e1.get("table_sources", {}),
        },
        "bounded_symbolic": {
            "engine": "E2 (bounded; never counted in `discharged`)",
            "obligations": len([x for x in proved + failed if x[2].get("engine") == "E2"]),
            "held": len(e2_proved),
            "harnesses": [{"harness": r["harness"], "config": r["config"], "paths": r.get("paths"), "bound": r.get("notes"), "wall_s": r.get("wall_s")} for r in harnesses if r.get("engine") == "E2"],
        },
        "bounded_runtime": {"engine": "E3 run-time contracts on real interpreters (bounded; never counted in `discharged`)", "parts": e3_parts,
                            "interpreters": sorted(v for v, r in e3.items() if not r.get("missing_interpreter"))},
        "known_findings_matched": sorted({k["id"] for k, _ in known_hits}),
        "undecided": undecided[:40],
        "checker_errors": checker_errors[:20],
    }
    level = pl["level"]
    if level == "proof" and (cov["discharged"] != cov["obligations"] or not cov["obligations"]):
        # an undischarged obligation downgrades what this run can claim
        level = "other"
        cov["explanation"] = "DOWNGRADED for this run (discharged %d of %d obligations): %s" % (cov["discharged"], cov["obligations"], cov["explanation"])
    return {"property_id": prop, "tier": tier, "seed": seed, "level": level, "coverage": cov,
            "assumptions": pl.get("assumptions", []) + assumes, "wall_s": round(wall, 2), "violations": len(violations)}
