"""Static frame (modifies) pass over the AST of /repo/code_data: a flow-sensitive allocation/alias abstract interpretation.

Abstract provenance per expression: F = fresh container allocated in this call (remembers the provenance of what was put into it);
P:<param> = reachable from a parameter; G = module global; I = immutable / scalar; U = unknown.  Every store site (subscript or
attribute store, del, augmented assignment on a non-immutable name, mutator method call, call of a callee with a `modifies`
summary) is an obligation: the target is fresh, or a parameter the contract lists in `modifies`.  U => undecided.
"""

import ast, sys, os, collections
REPO = None
MUTATORS = {"append","extend","insert","pop","remove","clear","sort","add","update","discard","setdefault","popitem","reverse"}
FRESH_CALLS = {"dict","list","set","tuple","frozenset","sorted","bytes","bytearray","defaultdict","OrderedDict","chain","map","filter","zip","enumerate","range","reversed","iter"}
IMM_CALLS = {"len","int","str","repr","float","complex","bool","isinstance","hash","min","max","sum","abs","b64encode","b64decode","literal_eval","isnan","isinf","getattr","type","id","all","any","print","dumps","field_is_default","is_dataclass","fields","hasattr"}

# assumed contracts on other modules: these calls read their arguments only and touch no interpreter-wide state
PURE_EXTERNALS = {"ast.literal_eval", "base64.b64decode", "base64.b64encode", "copy.copy", "dataclasses.fields", "dataclasses.is_dataclass", "dataclasses.replace", "math.isinf", "math.isnan",
                  "typing.cast", "itertools.chain", "enum._decompose", "collections.OrderedDict", "collections.defaultdict", "dataclasses.field", "types.CodeType", "dis.get_instructions", "dis.findlinestarts",
                  "ctypes.c_char", "ctypes.c_ubyte", "ctypes.c_byte", "sys.exc_info", "sys.getsizeof", "sys.intern", "math.copysign", "itertools.zip_longest", "itertools.islice",
                  "functools.reduce", "operator.itemgetter", "operator.attrgetter", "struct.pack", "struct.unpack", "binascii.hexlify", "binascii.unhexlify", "json.dumps", "json.loads"}
# calls that change state shared by every later call in the process
STATE_CHANGING_EXTERNALS = {"sys.set*", "os.environ*", "os.putenv", "os.unsetenv", "os.chdir", "os.umask", "random.seed", "random.setstate", "locale.setlocale", "warnings.simplefilter",
                            "warnings.filterwarnings", "warnings.resetwarnings", "gc.disable", "gc.enable", "gc.set*", "importlib.reload", "decimal.setcontext", "threading.set*",
                            "signal.signal", "sys.path*", "sys.modules*", "builtins.*", "codecs.register*", "copyreg.*", "socket.setdefaulttimeout", "resource.setrlimit"}

class Prov:
    __slots__ = ("kinds", "contents", "fields")
    def __init__(self, kinds=(), contents=(), fields=None): self.kinds = frozenset(kinds); self.contents = frozenset(contents); self.fields = fields
    def join(self, o):
        f = None
        if self.fields is not None and o.fields is not None:       # per-field tracking survives a join only for fields known on both sides
            f = {k: self.fields[k].join(o.fields[k]) for k in self.fields if k in o.fields}
        elif not self.kinds and not self.contents:
            f = o.fields
        elif not o.kinds and not o.contents:
            f = self.fields
        return Prov(self.kinds | o.kinds, self.contents | o.contents, f)
    def elems(self):
        """provenance of something loaded out of this object"""
        k = set()
        for x in self.kinds:
            if x == "F": k |= self.contents or {"F"}
            elif x == "I": k.add("I")
            else: k.add(x)          # P:…, G, U stay what they are
        return Prov(k, (self.contents - {"I"}) if "F" in k else ())
    def __repr__(self): return "{%s|%s}" % (",".join(sorted(self.kinds)), ",".join(sorted(self.contents)))
I = Prov({"I"}); 
def fresh(contents=(), fields=None): 
    c = set()
    for p in contents: c |= set(p.kinds) | p.contents
    return Prov({"F"}, c - {"I"}, fields)

def immutable_fields(REPO):
    """field names whose declared type, in every repo dataclass declaring them, is an immutable scalar/tuple-of-str (trusted: the repo type-checks under mypy)"""
    import glob
    decl = collections.defaultdict(set)
    for p in glob.glob(REPO + "*.py"):
        for c in [n for n in ast.parse(open(p).read()).body if isinstance(n, ast.ClassDef)]:
            for st in c.body:
                if isinstance(st, ast.AnnAssign) and isinstance(st.target, ast.Name): decl[st.target.id].add(ast.unparse(st.annotation))
    IMM = {"int", "str", "bool", "Optional[int]", "Optional[str]", "tuple[str, ...]", "Tuple[str, ...]", "tuple[int, ...]", "FunctionType", "bytes"}
    return {f for f, ts in decl.items() if ts <= IMM}
IMMUTABLE_FIELDS = set()
class FrameCheck(ast.NodeVisitor):
    def __init__(self, module_tree, modname, summaries, classes):
        self.modname, self.summaries, self.classes = modname, summaries, classes
        self.globals = {n.targets[0].id for n in module_tree.body if isinstance(n, ast.Assign) and isinstance(n.targets[0], ast.Name)}
        self.globals |= {n.target.id for n in module_tree.body if isinstance(n, ast.AnnAssign) and isinstance(n.target, ast.Name)}
        self.modules, self.imported = {}, {}       # local name -> module ; local name -> "module.attr" for from-imports of absolute modules
        for n in ast.walk(module_tree):
            if isinstance(n, ast.Import):
                for a in n.names: self.modules[(a.asname or a.name).split(".")[0]] = a.name if a.asname else a.name.split(".")[0]
            elif isinstance(n, ast.ImportFrom) and n.level == 0 and n.module:
                for a in n.names: self.imported[a.asname or a.name] = n.module + "." + a.name
        self.obligations = []
    def external_ob(self, qualname, node):
        """a call into another module: listed as pure (assumed contract), listed as changing interpreter-wide state (violation), or unknown (undecided)"""
        if qualname in PURE_EXTERNALS: ok, off = True, []
        elif any(qualname == m or (m.endswith("*") and qualname.startswith(m[:-1])) for m in STATE_CHANGING_EXTERNALS):
            # a function that also reads the setting back may be saving and restoring it: not decidable here
            mod, _, attr = qualname.rpartition(".")
            reads = {mod + "." + attr.replace("set", "get", 1), mod + ".getcwd", mod + ".getstate", mod + ".getlocale", mod + ".catch_warnings", mod + ".localcontext", mod + ".isenabled"} - {qualname}
            ok, off = False, (["U"] if any(r in self.calls_in_function for r in reads) else ["G"])
        else: ok, off = False, ["U"]
        self.obligations.append(dict(fn=self.qual, line=node.lineno, what="external call %s() leaves interpreter-wide state unchanged" % qualname, target="M:" + qualname, ok=ok, offending=off))
    def check_function(self, fn, qual, modifies=()):
        self.env = {}; self.qual = qual; self.modifies = set(modifies); self.returns = Prov()
        self.calls_in_function = set()
        for n in ast.walk(fn):
            if isinstance(n, ast.Call) and isinstance(n.func, ast.Attribute) and isinstance(n.func.value, ast.Name) and n.func.value.id in self.modules:
                self.calls_in_function.add(self.modules[n.func.value.id] + "." + n.func.attr)
            elif isinstance(n, ast.Call) and isinstance(n.func, ast.Name) and n.func.id in self.imported:
                self.calls_in_function.add(self.imported[n.func.id])
        args = fn.args.posonlyargs + fn.args.args + fn.args.kwonlyargs
        for a in args: self.env[a.arg] = Prov({"P:" + a.arg})
        # a mutable default value is one object shared by every call that omits the argument: a store through that parameter is a store to module-lifetime state
        pos = fn.args.posonlyargs + fn.args.args
        defaults = list(zip(pos[len(pos) - len(fn.args.defaults):], fn.args.defaults)) + [(a, d) for a, d in zip(fn.args.kwonlyargs, fn.args.kw_defaults) if d is not None]
        for a, d in defaults:
            if isinstance(d, (ast.List, ast.Dict, ast.Set, ast.ListComp, ast.DictComp, ast.SetComp)) or (
                    isinstance(d, ast.Call) and isinstance(d.func, ast.Name) and d.func.id in ("set", "list", "dict", "bytearray", "defaultdict", "OrderedDict", "deque", "Counter")):
                self.env[a.arg] = Prov({"P:" + a.arg, "G"})
        self.params = [a.arg for a in args]
        self.block(fn.body)
        return self.returns
    def block(self, stmts):
        for s in stmts: self.stmt(s)
    def store_ob(self, target_prov, node, what):
        bad = sorted(k for k in target_prov.kinds if k != "F" and not (k.startswith("P:") and k[2:] in self.modifies))
        self.obligations.append(dict(fn=self.qual, line=node.lineno, what=what, target=repr(target_prov), ok=not bad, offending=bad))
    def stmt(self, s):
        if isinstance(s, (ast.Assign, ast.AnnAssign)):
            if isinstance(s, ast.AnnAssign) and s.value is None: return
            v = self.expr(s.value)
            for t in (s.targets if isinstance(s, ast.Assign) else [s.target]): self.assign(t, v, s)
        elif isinstance(s, ast.AugAssign):
            v = self.expr(s.value)
            if isinstance(s.target, ast.Name):
                cur = self.env.get(s.target.id, Prov({"G"}) if s.target.id in self.globals else I)
                # in-place only matters for mutable containers; ints rebinding is harmless: only flag non-I targets
                if cur.kinds - {"I"}: self.store_ob(Prov(cur.kinds - {"I"}, cur.contents), s, "aug-assign %s" % ast.unparse(s.target))
                self.env[s.target.id] = cur.join(Prov((), v.kinds - {"I", "F"} | v.contents)) if "F" in cur.kinds else cur
            else:
                self.store_ob(self.expr(s.target.value), s, "aug-assign %s" % ast.unparse(s.target))
        elif isinstance(s, ast.Delete):
            for t in s.targets:
                if isinstance(t, (ast.Subscript, ast.Attribute)): self.store_ob(self.expr(t.value), s, "del %s" % ast.unparse(t))
        elif isinstance(s, ast.Expr): self.expr(s.value)
        elif isinstance(s, ast.Return):
            if s.value is not None: self.returns = self.returns.join(self.expr(s.value))
        elif isinstance(s, (ast.If, ast.While)):
            self.expr(s.test); before = dict(self.env)
            self.block(s.body); a = self.env; self.env = dict(before); self.block(s.orelse); self.merge(a)
            if isinstance(s, ast.While): self.block(s.body); self.merge(a)
        elif isinstance(s, ast.For):
            it = self.expr(s.iter); before = dict(self.env)
            for _ in range(2):
                self.assign(s.target, it.elems(), s); self.block(s.body); self.merge(before)
            self.block(s.orelse)
        elif isinstance(s, ast.Try):
            self.block(s.body)
            for h in s.handlers: self.block(h.body)
            self.block(s.orelse); self.block(s.finalbody)
        elif isinstance(s, ast.With):
            for i in s.items: self.expr(i.context_expr)
            self.block(s.body)
        elif isinstance(s, (ast.Raise, ast.Assert)):
            for c in ast.iter_child_nodes(s):
                if isinstance(c, ast.expr): self.expr(c)
        elif isinstance(s, ast.FunctionDef):
            sub = FrameCheck.__new__(FrameCheck); sub.__dict__.update(self.__dict__)
            outer = dict(self.env); sub.env = dict(outer); sub.qual = self.qual + "." + s.name
            sub.block(s.body)       # closures: analysed in the defining environment (nonlocal writes are rebinding, not mutation)
        elif isinstance(s, (ast.Pass, ast.Import, ast.ImportFrom, ast.Nonlocal, ast.Global, ast.Break, ast.Continue)):
            if isinstance(s, ast.Global): self.obligations.append(dict(fn=self.qual, line=s.lineno, what="global statement", target="G", ok=False, offending=["G"]))
        else: raise NotImplementedError(ast.dump(s)[:80])
    def merge(self, other):
        for k in set(self.env) | set(other): 
            a, b = self.env.get(k), other.get(k)
            self.env[k] = a.join(b) if a and b else (a or b)
    def assign(self, t, v, node):
        if isinstance(t, ast.Name): self.env[t.id] = v
        elif isinstance(t, (ast.Tuple, ast.List)):
            for e in t.elts: self.assign(e, v.elems(), node)
        elif isinstance(t, (ast.Subscript, ast.Attribute)):
            tp = self.expr(t.value); self.store_ob(tp, node, "store %s" % ast.unparse(t))
            if isinstance(t.value, ast.Name) and "F" in tp.kinds:    # remember what went into a fresh container
                self.env[t.value.id] = Prov(tp.kinds, tp.contents | (v.kinds - {"I", "F"}) | v.contents)
        elif isinstance(t, ast.Starred): self.assign(t.value, v, node)
    def expr(self, e):
        if e is None: return I
        if isinstance(e, ast.Name):
            if e.id in self.env: return self.env[e.id]
            if e.id in self.modules: return Prov({"M:" + self.modules[e.id]})
            return Prov({"G"}) if e.id in self.globals else I
        if isinstance(e, (ast.Constant, ast.JoinedStr, ast.Compare, ast.BoolOp, ast.UnaryOp)):
            for c in ast.iter_child_nodes(e):
                if isinstance(c, ast.expr): self.expr(c)
            if isinstance(e, ast.BoolOp): 
                r = Prov()
                for v in e.values: r = r.join(self.expr(v))
                return r
            return I
        if isinstance(e, ast.BinOp):
            l, r = self.expr(e.left), self.expr(e.right)
            return fresh([l.elems(), r.elems()]) if (l.kinds | r.kinds) - {"I"} else I     # set/list/tuple operators allocate
        if isinstance(e, (ast.Dict, ast.List, ast.Set, ast.Tuple)):
            parts = [self.expr(x) for x in (list(e.keys) + list(e.values) if isinstance(e, ast.Dict) else e.elts) if x is not None]
            return fresh(parts)
        if isinstance(e, (ast.ListComp, ast.SetComp, ast.GeneratorExp, ast.DictComp)):
            saved = dict(self.env)
            for g in e.generators:
                self.assign(g.target, self.expr(g.iter).elems(), e)
                for c in g.ifs: self.expr(c)
            parts = [self.expr(e.key), self.expr(e.value)] if isinstance(e, ast.DictComp) else [self.expr(e.elt)]
            self.env = saved; return fresh(parts)
        if isinstance(e, ast.IfExp): self.expr(e.test); return self.expr(e.body).join(self.expr(e.orelse))
        if isinstance(e, ast.Subscript): self.expr(e.slice); return self.expr(e.value).elems()
        if isinstance(e, ast.Attribute):
            base = self.expr(e.value)
            mods = [k for k in base.kinds if k.startswith("M:")]
            if mods: return Prov({m + "." + e.attr for m in mods})
            if e.attr in IMMUTABLE_FIELDS: return I
            if base.fields is not None and e.attr in base.fields: return base.fields[e.attr]      # per-field tracking of keyword constructor calls
            return base.elems()
        if isinstance(e, ast.Starred): return self.expr(e.value).elems()
        if isinstance(e, ast.Lambda): return I
        if isinstance(e, ast.FormattedValue): self.expr(e.value); return I
        if isinstance(e, ast.Slice):
            for c in (e.lower, e.upper, e.step): self.expr(c)
            return I
        if isinstance(e, ast.Call): return self.call(e)
        if isinstance(e, (ast.Yield, ast.YieldFrom, ast.Await)): return self.expr(e.value)
        raise NotImplementedError(ast.dump(e)[:80])
    def call(self, e):
        argp = [self.expr(a) for a in e.args] + [self.expr(k.value) for k in e.keywords]
        f = e.func
        if isinstance(f, ast.Attribute):
            recv = self.expr(f.value)
            mods = [k for k in recv.kinds if k.startswith("M:")]
            if mods and f.attr not in MUTATORS:
                for m in mods: self.external_ob(m[2:] + "." + f.attr, e)
                return fresh(argp)
            if f.attr in MUTATORS and not (recv.kinds <= {"I"}):
                self.store_ob(recv, e, "call .%s() on %s" % (f.attr, ast.unparse(f.value)))
                return recv.elems()
            key = ("method", f.attr)
            if key in self.summaries:          # repo method with a modifies-self summary
                if self.summaries[key].get("modifies_self"): self.store_ob(recv, e, "call %s() (modifies self)" % f.attr)
                return Prov({"U"}) if self.summaries[key].get("returns") == "U" else fresh(argp + [recv])
            if f.attr in ("items", "keys", "values", "get", "copy", "index", "encode", "decode", "format", "join", "replace", "splitlines", "read_text", "startswith", "endswith"): 
                return recv.elems() if f.attr in ("items", "keys", "values", "get") else I
            return fresh(argp + [recv])           # classmethod / constructor-like: CodeData.from_code etc.
        if isinstance(f, ast.Subscript) and isinstance(f.value, ast.Name) and f.value.id in self.classes: return fresh(argp)
        name = f.id if isinstance(f, ast.Name) else None
        if name in self.imported and name not in self.env: self.external_ob(self.imported[name], e)
        if name == "copy": return Prov({"F"}, argp[0].elems().kinds - {"I", "F"} | argp[0].contents)
        if name == "cast": return argp[1]
        if name == "replace": return fresh(argp)
        if name in self.classes and e.keywords and not e.args:
            return fresh(argp, {k.arg: self.expr(k.value) for k in e.keywords if k.arg})
        if name in FRESH_CALLS or name in self.classes: return fresh([a.elems() if name in FRESH_CALLS else a for a in argp])
        if name in IMM_CALLS: return I
        if name in self.summaries:
            s = self.summaries[name]
            for idx in s.get("modifies", []):
                if idx < len(argp): self.store_ob(argp[idx], e, "call %s() (modifies arg %d)" % (name, idx))
            if s.get("returns") == "I": return I
            return RETURNS.get(name, lambda a: fresh(a))(argp)
        if name in self.env: return Prov({"U"})
        return Prov({"U"})



# contracts' modifies clauses (sidecar), used as callee summaries and as what each callee is itself checked against
SUMMARIES = {
  "to_line_mapping": {}, "from_line_mapping": {"returns": "I"}, "to_flags_data": {}, "from_flags_data": {"returns": "I"},
  "to_constant": {}, "from_constant": {}, "args_from_input": {"modifies_attr": [(0, "flags_data")]}, "args_to_input": {"modifies": [1]},
  "args_to_parameters": {}, "args_to_varnames": {}, "bytes_to_blocks": {"modifies": [1]}, "blocks_to_bytes": {}, "to_code_data": {}, "from_code_data": {},
  "normalize": {}, "value_to_json": {}, "code_data_to_json": {}, "code_data_from_json": {}, "instruction_from_json": {}, "arg_from_json": {},
  "constant_value_from_json": {}, "lists_values_to_tuples": {}, "to_arg": {"modifies": [3, 4, 6, 7]}, "from_arg": {"modifies": [3, 4, 5, 6]},
  "_parse_bytes": {}, "_instrsize": {"returns": "I"}, "constant_key": {}, "inner_constant_key": {}, "bytes_to_items": {}, "items_to_bytes": {"returns": "I"},
  "collapse_items": {}, "expand_items": {}, "items_to_mapping": {}, "mapping_to_items": {}, "is_neg_zero": {"returns": "I"}, "replace_nan": {"returns": "I"},
  ("method", "modify_line_offsets"): {"modifies_self": True}, ("method", "add_additional_line"): {"modifies_self": True},
  ("method", "pop_additional_line"): {"modifies_self": True}, ("method", "found_index"): {"modifies_self": True}, ("method", "additional_args"): {"modifies_self": True},
  ("method", "to_tuple"): {}, ("method", "from_code"): {}, ("method", "to_code"): {}, ("method", "all_code_data"): {},
}
API = {  # function -> parameters it may modify (from property C12: none for the public API and its helpers)
  "_json_data.py": {"code_data_from_json": [], "instruction_from_json": [], "arg_from_json": [], "constant_value_from_json": [], "lists_values_to_tuples": [], "value_to_json": [], "code_data_to_json": []},
  "_normalize.py": {"normalize": []},
  "_code_data.py": {"to_code_data": [], "from_code_data": []},
  "_args.py": {"args_from_input": ["input"], "args_to_input": ["flags_data"], "args_to_parameters": [], "args_to_varnames": []},
  "_blocks.py": {"bytes_to_blocks": ["line_mapping"], "blocks_to_bytes": [], "to_arg": ["found_names", "found_varnames", "found_cellvars", "found_constants"], "from_arg": ["names", "varnames", "cellvars", "constants"]},
  "_line_mapping.py": {"to_line_mapping": [], "from_line_mapping": [], "bytes_to_items": [], "items_to_bytes": [], "collapse_items": [], "expand_items": [], "items_to_mapping": [], "mapping_to_items": []},
  "_constants.py": {"constant_key": [], "inner_constant_key": [], "to_constant": [], "from_constant": []},
  "_flags_data.py": {"to_flags_data": [], "from_flags_data": []},
}
CLASSES = {"CodeData","Instruction","Jump","Name","Varname","Constant","Freevar","Cellvar","NoArg","Args","Function","AdditionalLine","LineMapping","LineTableItem","CollapsedLineTableItem","ToArgs","FromArgs","ArgsInput","CodeType","ValueError","NotImplementedError"}
RETURNS = {}


def ret_summary(fname, fn_name):
    """analyse the callee once with symbolic params and substitute actuals for P:<param> in its return provenance"""
    tree = ast.parse(open(REPO + fname).read())
    node = next((n for n in tree.body if isinstance(n, ast.FunctionDef) and n.name == fn_name), None)
    if node is None:
        return None
    fc = FrameCheck(tree, fname, SUMMARIES, CLASSES); r = fc.check_function(node, fname + ":" + fn_name)
    params = fc.params
    def subst(actuals):
        kinds, contents = set(), set()
        m = {"P:" + p: (actuals[i] if i < len(actuals) else I) for i, p in enumerate(params)}
        for k in r.kinds:
            if k in m: kinds |= m[k].kinds; contents |= m[k].contents
            else: kinds.add(k)
        for k in r.contents:
            if k in m: contents |= m[k].kinds | m[k].contents
            else: contents.add(k)
        fields = None
        if r.fields is not None:
            fields = {}
            for fk, fv in r.fields.items():
                fk_kinds, fk_cont = set(), set()
                for k in fv.kinds:
                    if k in m: fk_kinds |= m[k].kinds; fk_cont |= m[k].contents
                    else: fk_kinds.add(k)
                for k in fv.contents:
                    if k in m: fk_cont |= m[k].kinds | m[k].contents
                    else: fk_cont.add(k)
                fields[fk] = Prov(fk_kinds, fk_cont - {"I"})
        return Prov(kinds, contents - {"I"}, fields)
    return subst


def run(repo):
    """-> (obligations, missing) ; obligations: dicts with fn, what, ordinal, line, ok, undecided, offending"""
    global REPO
    REPO = os.path.join(repo, "code_data") + os.sep
    IMMUTABLE_FIELDS.clear(); IMMUTABLE_FIELDS.update(immutable_fields(REPO))
    RETURNS.clear()
    missing = []
    for fname, fns in API.items():
        for n in fns:
            try:
                s = ret_summary(fname, n)
            except NotImplementedError as e:
                s = None
            if s is None:
                missing.append("%s:%s" % (fname, n))
            else:
                RETURNS[n] = s
    out = []
    files = dict(API)
    for extra in ("__init__.py", "dataclass_hide_default.py"):
        if os.path.exists(REPO + extra): files.setdefault(extra, {})
    for fname, fns in files.items():
        tree = ast.parse(open(REPO + fname).read())
        todo = []      # (node, qualified name, modifies, has_contract)
        for node in tree.body:
            if isinstance(node, ast.FunctionDef):
                todo.append((node, fname + ":" + node.name, fns.get(node.name, []), node.name in fns))
            elif isinstance(node, ast.ClassDef):
                for m in node.body:
                    if isinstance(m, ast.FunctionDef):
                        mod_self = SUMMARIES.get(("method", m.name), {}).get("modifies_self") or m.name in ("__init__", "__post_init__", "__setitem__", "add")
                        todo.append((m, "%s:%s.%s" % (fname, node.name, m.name), ["self"] if mod_self else [], ("method", m.name) in SUMMARIES or not mod_self))
        for node, qual, modifies, has_contract in todo:
            fc = FrameCheck(tree, fname, SUMMARIES, CLASSES)
            try:
                fc.check_function(node, qual, modifies=modifies)
            except NotImplementedError as e:
                out.append(dict(fn=qual, what="<unsupported syntax %s>" % str(e)[:60], line=node.lineno, ok=False, undecided=True, offending=["U"], target="U", ordinal=1))
                continue
            seen = {}
            for o in fc.obligations:
                k = (o["fn"], o["what"])
                seen[k] = seen.get(k, 0) + 1
                o["ordinal"] = seen[k]
                o["undecided"] = (not o["ok"]) and o["offending"] == ["U"]
                if not o["ok"] and not has_contract and all(x.startswith("P:") for x in o["offending"]):
                    o["undecided"] = True          # a helper without a frame contract that writes to its own parameter: needs a contract, not a violation
                out.append(o)
    return out, missing
