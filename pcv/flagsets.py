"""Proxies for flag words and flag-name sets.

SymFlagWord   : a flag word as independent booleans, one per defined bit, plus one boolean "some undefined bit is set".
GhostNameSet  : set of names with symbolic membership (ghost accumulator, rule 4).
Guarded iteration (rule 6, generic-element rule for accumulate-only loops): iterating a GuardedSeq runs the loop body once per
*candidate* element with a current guard; ghost-aware accumulators record `guard -> effect`.  Sound only when the body's effects go
to ghost-aware objects (checked syntactically by the harness via `accumulate_only`).
"""
from __future__ import annotations

import ast

import z3

from .core import Ctx, SymBool, Unsupported

_GUARD = [None]          # current guard (z3 Bool) while inside a guarded iteration


def current_guard():
    return _GUARD[0] if _GUARD[0] is not None else z3.BoolVal(True)


class GuardedSeq:
    def __init__(self, items):       # [(element, guard)]
        self.items = list(items)

    def __iter__(self):
        if _GUARD[0] is not None:
            raise Unsupported("nested guarded iteration")
        try:
            for el, g in self.items:
                _GUARD[0] = g
                yield el
        finally:
            _GUARD[0] = None

    def __len__(self):
        raise Unsupported("len of a guarded sequence")

    def __getitem__(self, i):
        raise Unsupported("indexing a guarded sequence")


class GhostNameSet:
    """set[str] with symbolic membership per name"""

    def __init__(self, mem=None):
        self.mem = dict(mem or {})

    def add(self, name):
        if not isinstance(name, str):
            raise Unsupported("GhostNameSet.add(%r)" % (name,))
        g = current_guard()
        self.mem[name] = z3.simplify(z3.Or(self.mem.get(name, z3.BoolVal(False)), g))

    def has(self, name):
        return self.mem.get(name, z3.BoolVal(False))

    def __iter__(self):
        return iter(GuardedSeq([(n, g) for n, g in self.mem.items()]))

    def __contains__(self, name):
        return bool(SymBool(self.has(name)))

    def __len__(self):
        raise Unsupported("len of a symbolic set")

    def __hash__(self):
        raise Unsupported("hash")


class GuardedValue:
    """an int flag value contributed under the current guard"""

    def __init__(self, value, guard):
        self.value, self.guard = int(value), guard

    def __ror__(self, o):
        if isinstance(o, int) and not isinstance(o, bool):
            w = SymFlagWord.of_int(o)
            return w | self
        return NotImplemented


class SymFlagWord:
    """A flag word as a 32-bit vector (co_flags is a C int; Python-level words are non-negative)."""

    def __init__(self, bv):
        self.bv = bv

    @staticmethod
    def fresh(prefix, defined_values=None):
        return SymFlagWord(z3.BitVec(prefix + "word", 32))

    @staticmethod
    def of_int(n):
        return SymFlagWord(z3.BitVecVal(n, 32))

    def bit(self, v):
        return (self.bv & z3.BitVecVal(v, 32)) != 0

    def unknown(self, defined_values):
        mask = 0
        for v in defined_values:
            mask |= v
        return (self.bv & z3.BitVecVal(~mask & 0xFFFFFFFF, 32)) != 0

    def __bool__(self):
        return Ctx.cur.decide(self.bv != 0)

    def _other(self, o):
        if isinstance(o, SymFlagWord):
            return o.bv
        if isinstance(o, int) and not isinstance(o, bool) and -2 ** 32 <= o < 2 ** 32:
            return z3.BitVecVal(int(o) & 0xFFFFFFFF, 32)     # a negative mask (~m) in two's complement: exact for `&` with a non-negative 32-bit word
        raise Unsupported("flag word operand %r" % (o,))

    def __or__(self, o):
        if isinstance(o, GuardedValue):
            return SymFlagWord(self.bv | z3.If(o.guard, z3.BitVecVal(o.value, 32), z3.BitVecVal(0, 32)))
        return SymFlagWord(self.bv | self._other(o))

    __ior__ = __or__
    __ror__ = __or__

    def __and__(self, o):
        return SymFlagWord(self.bv & self._other(o))

    __rand__ = __and__

    def __gt__(self, o):
        return SymBool(z3.UGT(self.bv, self._other(o)))

    def __ge__(self, o):
        return SymBool(z3.UGE(self.bv, self._other(o)))

    def __lt__(self, o):
        return SymBool(z3.ULT(self.bv, self._other(o)))

    def __le__(self, o):
        return SymBool(z3.ULE(self.bv, self._other(o)))

    def __eq__(self, o):
        try:
            return SymBool(self.bv == self._other(o))
        except Unsupported:
            return False

    def __ne__(self, o):
        r = self.__eq__(o)
        return ~r if isinstance(r, SymBool) else True

    def __index__(self):
        raise Unsupported("concretisation of a symbolic flag word")

    def __format__(self, spec):
        return "<symbolic flag word>"

    def __hash__(self):
        raise Unsupported("hash")


def _unsupported(msg):
    raise Unsupported(msg)


class Truthy:
    """object whose only observable is its truthiness (a z3 Bool)"""

    def __init__(self, z):
        self.z = z

    def __bool__(self):
        return Ctx.cur.decide(self.z)

    def __format__(self, spec):
        return "<symbolic>"


def accumulate_only(loop, acc_names, element):
    """Syntactic side condition of rule 6 for `for <element> in ...:` - every statement of the body is
    `acc.add(...)`, `acc |= ...` / `acc = acc | ...` on a listed accumulator, or `if <test>: raise ...`."""
    for st in loop.body:
        if isinstance(st, ast.Expr) and isinstance(st.value, ast.Call) and isinstance(st.value.func, ast.Attribute) \
                and st.value.func.attr in ("add", "append") and isinstance(st.value.func.value, ast.Name) and st.value.func.value.id in acc_names:
            continue
        if isinstance(st, ast.AugAssign) and isinstance(st.target, ast.Name) and st.target.id in acc_names and isinstance(st.op, ast.BitOr):
            continue
        if isinstance(st, ast.If) and not st.orelse and all(isinstance(b, ast.Raise) for b in st.body):
            continue
        return False
    return True
