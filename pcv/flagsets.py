"""Proxies for flag words and flag-name sets.

SymFlagWord   : a flag word as independent booleans, one per defined bit, plus one boolean "some undefined bit is set".
GhostNameSet  : set of names with symbolic membership (ghost accumulator, rule 4).
Guarded iteration (rule 6, generic-element rule for accumulate-only loops): iterating a GuardedSeq runs the loop body once per
*candidate* element with a current guard; ghost-aware accumulators record `guard -> effect`.  Sound only when the body's effects go
to ghost-aware objects (checked syntactically by the harness via `accumulate_only`).
"""
from __future__ import annotations

import ast

import z3

from .core import Ctx, SymBool, Unsupported

_GUARD = [None]          # current guard (z3 Bool) while inside a guarded iteration


def current_guard():
    return _GUARD[0] if _GUARD[0] is not None else z3.BoolVal(True)


class GuardedSeq:
    def __init__(self, items):       # [(element, guard)]
        self.items = list(items)

    def __iter__(self):
        if _GUARD[0] is not None:
            raise Unsupported("nested guarded iteration")
        try:
            for el, g in self.items:
                _GUARD[0] = g
                yield el
        finally:
            _GUARD[0] = None

    def __len__(self):
        raise Unsupported("len of a guarded sequence")

    def __getitem__(self, i):
        raise Unsupported("indexing a guarded sequence")


class GhostNameSet:
    """set[str] with symbolic membership per name"""

    def __init__(self, mem=None):
        self.mem = dict(mem or {})

    def add(self, name):
        if not isinstance(name, str):
            raise Unsupported("GhostNameSet.add(%r)" % (name,))
        g = current_guard()
        self.mem[name] = z3.simplify(z3.Or(self.mem.get(name, z3.BoolVal(False)), g))

    def has(self, name):
        return self.mem.get(name, z3.BoolVal(False))

    def __iter__(self):
        return iter(GuardedSeq([(n, g) for n, g in self.mem.items()]))

    def __contains__(self, name):
        return bool(SymBool(self.has(name)))

    def __len__(self):
        raise Unsupported("len of a symbolic set")

    def __hash__(self):
        raise Unsupported("hash")


class GuardedValue:
    """an int flag value contributed under the current guard"""

    def __init__(self, value, guard):
        self.value, self.guard = int(value), guard

    def __ror__(self, o):
        if isinstance(o, int) and not isinstance(o, bool):
            w = SymFlagWord.of_int(o)
            return w | self
        return NotImplemented


class SymFlagWord:
    def __init__(self, bits, unknown):
        self.bits = dict(bits)       # defined single-bit value -> z3 Bool
        self.unknown = unknown       # z3 Bool: some bit outside the defined ones is set

    @staticmethod
    def fresh(prefix, defined_values):
        return SymFlagWord({v: z3.Bool("%sbit_%#x" % (prefix, v)) for v in defined_values}, z3.Bool(prefix + "unknown_bits"))

    @staticmethod
    def of_int(n):
        bits, v = {}, 1
        while v <= n:
            if n & v:
                bits[v] = z3.BoolVal(True)
            v <<= 1
        return SymFlagWord(bits, z3.BoolVal(False))

    def bit(self, v):
        return self.bits.get(v, z3.BoolVal(False))

    def __bool__(self):
        return Ctx.cur.decide(z3.Or(self.unknown, *self.bits.values()))

    def __or__(self, o):
        if isinstance(o, GuardedValue):
            if o.value & (o.value - 1):
                raise Unsupported("multi-bit flag value")
            b = dict(self.bits)
            b[o.value] = z3.simplify(z3.Or(b.get(o.value, z3.BoolVal(False)), o.guard))
            return SymFlagWord(b, self.unknown)
        if isinstance(o, int) and not isinstance(o, bool):
            return self | GuardedValue(o, z3.BoolVal(True)) if o and not (o & (o - 1)) else (self if o == 0 else _unsupported("| multi-bit int"))
        raise Unsupported("SymFlagWord | %r" % (o,))

    __ior__ = __or__

    def __index__(self):
        raise Unsupported("concretisation of a symbolic flag word")

    def __hash__(self):
        raise Unsupported("hash")


def _unsupported(msg):
    raise Unsupported(msg)


class Truthy:
    """object whose only observable is its truthiness (a z3 Bool)"""

    def __init__(self, z):
        self.z = z

    def __bool__(self):
        return Ctx.cur.decide(self.z)

    def __format__(self, spec):
        return "<symbolic>"


def accumulate_only(loop, acc_names, element):
    """Syntactic side condition of rule 6 for `for <element> in ...:` - every statement of the body is
    `acc.add(...)`, `acc |= ...` / `acc = acc | ...` on a listed accumulator, or `if <test>: raise ...`."""
    for st in loop.body:
        if isinstance(st, ast.Expr) and isinstance(st.value, ast.Call) and isinstance(st.value.func, ast.Attribute) \
                and st.value.func.attr in ("add", "append") and isinstance(st.value.func.value, ast.Name) and st.value.func.value.id in acc_names:
            continue
        if isinstance(st, ast.AugAssign) and isinstance(st.target, ast.Name) and st.target.id in acc_names and isinstance(st.op, ast.BitOr):
            continue
        if isinstance(st, ast.If) and not st.orelse and all(isinstance(b, ast.Raise) for b in st.body):
            continue
        return False
    return True
