"""Property-specific orchestration that needs several interpreters or host-only libraries (jsonschema)."""
from __future__ import annotations

import json
import os
import subprocess
import sys
from concurrent.futures import ThreadPoolExecutor

from . import config

VERIF = config.VERIF


def _env(repo):
    env = dict(os.environ)
    env["PYTHONPATH"] = os.pathsep.join([os.path.join(VERIF, "shim"), repo, VERIF])
    env["PYTHONDONTWRITEBYTECODE"] = "1"
    env["PCV_REPO"] = repo
    return env


def c15(tier, seed, workdir, repo):
    """documents written under each of 3.7-3.10, loaded / re-dumped / normalized under each available 3.7-3.13"""
    producers = [v for v in config.VERSIONS if config.interpreter(v)]
    consumers = [v for v in ["3.7", "3.8", "3.9", "3.10", "3.11", "3.12", "3.13"] if config.interpreter(v)]
    env = _env(repo)
    out = {}

    def write(v):
        path = os.path.join(workdir, "c15-docs-%s.jsonl" % v)
        p = subprocess.run([config.interpreter(v), "-m", "rtc.c15", "write", path, tier, str(seed)], env=env, capture_output=True, text=True, cwd=VERIF)
        return v, path, p

    with ThreadPoolExecutor(max_workers=8) as ex:
        written = list(ex.map(write, producers))
    jobs = []
    for v, path, p in written:
        if p.returncode != 0 or not os.path.exists(path):
            out.setdefault(v, {"parts": {}})["crash"] = "c15 writer failed on %s: %s" % (v, (p.stderr or "")[-600:])
            continue
        for c in consumers:
            jobs.append((v, c, path))

    def read(job):
        v, c, path = job
        res = os.path.join(workdir, "c15-read-%s-by-%s.json" % (v, c))
        p = subprocess.run([config.interpreter(c), "-m", "rtc.c15", "read", path, res], env=env, capture_output=True, text=True, cwd=VERIF)
        if p.returncode != 0 or not os.path.exists(res):
            return v, c, {"crash": (p.stderr or "")[-600:]}
        return v, c, json.load(open(res))

    with ThreadPoolExecutor(max_workers=16) as ex:
        reads = list(ex.map(read, jobs))
    for v, c, r in reads:
        d = out.setdefault(c, {"parts": {}})
        part = d["parts"].setdefault("cross_version_documents", {"evaluations": 0, "distinct": 0, "failures": [], "samples": [],
                                                                 "bound": "documents of the quick corpus (G1-G3, top-level units) written under each of %s, consumed under each of %s" % (producers, consumers)})
        if "crash" in r:
            d["crash"] = "c15 reader %s on documents of %s: %s" % (c, v, r["crash"])
            continue
        part["evaluations"] += r["n"]
        part["distinct"] = max(part["distinct"], r["n"])
        if len(part["samples"]) < 2:
            part["samples"].append("producer %s -> consumer %s: %d documents" % (v, c, r["n"]))
        kept, per_class = [], {}
        for f in r["failures"]:          # keep a few failures of every input class, so that a known class cannot crowd out a new one
            k = tuple(f.get("tags", []))
            per_class[k] = per_class.get(k, 0) + 1
            if per_class[k] <= 4:
                kept.append(f)
        for f in kept:
            part["failures"].append({"check": "portable_json", "unit": "%s written by %s" % (f["id"], v), "msgs": [f["msg"] + " (consumer %s)" % c],
                                     "recipe": {"producer": v, "consumer": c, "id": f["id"]}, "tags": f.get("tags", [])})
    return out


def c07_schema(tier, seed, workdir, repo):
    """validate the documents the 3.7-3.10 workers produced against the published JSON_SCHEMA with the independent jsonschema library"""
    import jsonschema
    sys.path.insert(0, repo)
    import importlib
    code_data = importlib.import_module("code_data")
    schema = code_data.JSON_SCHEMA
    validator = jsonschema.Draft7Validator(schema)
    out = {}
    for v in config.VERSIONS:
        path = os.path.join(workdir, "c07-docs-%s.jsonl" % v)
        if not os.path.exists(path):
            continue
        part = {"evaluations": 0, "distinct": 0, "failures": [], "samples": [], "bound": "every document produced by the C07 corpus and edge-value parts under this interpreter (first 4000)"}
        seen = set()
        for line in open(path):
            part["evaluations"] += 1
            if line in seen:
                continue
            seen.add(line)
            doc = json.loads(line)
            errs = list(validator.iter_errors(doc))
            if errs and len(part["failures"]) < 10:
                e = errs[0]
                sur = isinstance(e.instance, dict) and set(e.instance) == {"string"} and (not e.absolute_path or "constant" not in [str(x) for x in e.absolute_path])
                part["failures"].append({"check": "schema_validation", "unit": line[:120], "msgs": ["JSON_SCHEMA violation at %s: %s" % ("/".join(map(str, e.absolute_path)), e.message[:200])],
                                         "recipe": {"doc": doc}, "tags": ["lone-surrogate-string-outside-constants"] if sur else []})
        part["distinct"] = len(seen)
        out[v] = {"parts": {"schema_validation": part}}
    return out


CUSTOM = {"C15": c15, "C07": c07_schema}
