"""pcv core: path explorer, solver context and z3-backed proxy values.

The real functions of /repo are *called* with these proxies; every Python operator the
code applies ends up in a dunder method below and builds a z3 term.  `SymBool.__bool__`
is the fork point.  A proof obligation is `path-condition /\\ not claim` being unsat.

Soundness conventions
* `unknown` at a feasibility query  -> both branches are explored.
* `unknown` at a prove query        -> obligation undecided (never proved, never failed).
* any concretisation of a proxy (`__index__`, `__int__`, `__hash__`, ...) raises
  `Unsupported` -> harness undecided.
"""
from __future__ import annotations

import time
import traceback
import z3

SOLVER_TIMEOUT_MS = 20000


class Unsupported(Exception):
    """The engine cannot model this operation: obligation is undecided."""


class PathAbort(Exception):
    """Path infeasible, cut at a loop cut-point, or assume(False)."""


def sem(exc):
    """Mark an exception raised by a proxy as *Python semantics* (the IndexError / KeyError the real object would raise)."""
    exc.pcv_semantic = True
    return exc


FRAGMENT_OUTER_STORES = {}     # fragment function name -> names the enclosing repository function assigns outside the lifted statements


def _from_code_under_test(e):
    """True when the exception is an outcome of the repository code (or of simulated Python semantics), False when it comes
    from harness / engine code (then it is an engine error: undecided, never a verdict)."""
    if getattr(e, "pcv_semantic", False):
        return True
    import re
    if re.search(r"pcv\.|contracts\.|\bSym[A-Z]\w*|Opaque|Ghost|Guarded|JsonOf|ReprOf|StrOf", "%s %s" % (type(e).__name__, e)):
        return False          # a proxy reached code the engine does not model (e.g. a type dispatch on type(x)): a limit of the engine, not an outcome
    tb = traceback.extract_tb(e.__traceback__)
    if not tb:
        return False
    fn = tb[-1].filename
    _m = re.search(r"variable '(\w+)'|name '(\w+)'", str(e)) if isinstance(e, NameError) else None
    _name = getattr(e, "name", None) or (_m and (_m.group(1) or _m.group(2)))
    if isinstance(e, NameError) and _name in FRAGMENT_OUTER_STORES.get(tb[-1].name, ()):
        # the lifted statements read a local that the enclosing function initialises *outside* them (the initialisation has moved): the fragment's own
        # UnboundLocalError says nothing about the code - the contract's binding is stale
        return False
    return fn.startswith("<code_data") or "/code_data/" in fn


class ObRes:
    """Aggregated result of one named obligation over all paths of one harness."""

    __slots__ = ("name", "hits", "proved", "failed", "unknown", "time", "model", "inputs", "detail", "smt2", "trivial")

    def __init__(self, name):
        self.name = name
        self.hits = 0
        self.proved = 0
        self.failed = 0
        self.unknown = 0
        self.trivial = 0
        self.time = 0.0
        self.model = None      # first counter-model (dict name -> str)
        self.inputs = None     # registered harness inputs evaluated in that model
        self.detail = None
        self.smt2 = []         # exported queries [(expected, text)]

    @property
    def status(self):
        if self.failed:
            return "failed"
        if self.unknown or not self.hits:
            return "undecided"
        return "proved"

    def to_json(self):
        d = {"name": self.name, "status": self.status, "hits": self.hits, "solver_s": round(self.time, 4),
             "backend": "z3-%s" % z3.get_version_string()}
        if self.trivial:
            d["hits_closed_by_simplifier"] = self.trivial
        if self.model is not None:
            d["model"] = self.model
        if self.inputs is not None:
            d["inputs"] = self.inputs
        if self.detail:
            d["detail"] = self.detail
        return d


class Results:
    """Shared between all paths of one harness run."""

    def __init__(self, export=None):
        self.obs = {}
        self.paths = 0
        self.queries = 0
        self.undecided_reason = None
        self.export = export       # None | callable(name) -> bool
        self.notes = []

    def ob(self, name):
        if name not in self.obs:
            self.obs[name] = ObRes(name)
        return self.obs[name]


class _Watchdog(object):
    """z3 does not always honour its own `timeout` (non-linear integer arithmetic can run for hours inside one check, where no Python signal handler can
    run either): one daemon thread interrupts the context when a check overruns its budget; the check then answers `unknown`."""

    def __init__(self):
        self.deadline = None
        self.thread = None

    def _run(self):
        while True:
            time.sleep(1.0)
            d = self.deadline
            if d is not None and time.time() > d:
                self.deadline = None
                try:
                    z3.main_ctx().interrupt()
                except Exception:
                    pass

    def check(self, solver, budget_s):
        if self.thread is None:
            import threading
            self.thread = threading.Thread(target=self._run, daemon=True)
            self.thread.start()
        self.deadline = time.time() + budget_s
        try:
            return solver.check()
        finally:
            self.deadline = None


WATCHDOG = _Watchdog()


class _WatchedSolver(object):
    """z3.Solver whose check() is bounded by the watchdog (everything else is delegated)"""

    def __init__(self, s):
        self._s = s
        self._budget = SOLVER_TIMEOUT_MS / 1000.0 + 10

    def set(self, *a, **kw):
        if a and a[0] == "timeout":
            self._budget = a[1] / 1000.0 + 10
        return self._s.set(*a, **kw)

    def check(self, *a):
        if a:
            return self._s.check(*a)
        return WATCHDOG.check(self._s, self._budget)

    def __getattr__(self, name):
        return getattr(self._s, name)


def _mk_solver():
    return _WatchedSolver(_mk_solver_raw())


def _mk_solver_raw():
    s = z3.Solver()
    s.set("timeout", SOLVER_TIMEOUT_MS)
    # e-matching only: quantified relations stay decidable-or-unknown instead of timing out
    s.set("auto_config", False)
    s.set("smt.mbqi", False)
    return s


class Ctx:
    cur = None

    def __init__(self, results, decisions, pending):
        self.solver = _mk_solver()
        self.results = results
        self.decisions = list(decisions)
        self.pending = pending
        self.pos = 0
        self.trace = []
        self.inputs = {}          # name -> z3 term or python value, for counter-model extraction
        self.counter = 0
        self.assumes = []         # textual log of assume() origins (vacuity scan)

    def set_timeout(self, ms):
        """z3 budget per query for this path (cvc5 then takes the unknowns); used by sequence-heavy harnesses"""
        self.solver.set("timeout", ms)

    # ---- names
    def fresh(self, stem):
        self.counter += 1
        return "%s!%d" % (stem, self.counter)

    def input(self, name, val):
        self.inputs[name] = val.snapshot() if isinstance(val, SymMap) else val
        return val

    # ---- branching
    def decide(self, cond):
        if getattr(self, "deadline", None) and time.time() > self.deadline:
            raise Unsupported("time budget exceeded inside one path (a loop of the code under test that does not end on symbolic input?)")
        cond = z3.simplify(cond)
        if z3.is_true(cond):
            return True
        if z3.is_false(cond):
            return False
        if self.pos < len(self.decisions):
            d = self.decisions[self.pos]
            self.pos += 1
            self.trace.append(d)
            self.solver.add(cond if d else z3.Not(cond))
            return d
        self.results.queries += 2
        self.solver.push(); self.solver.add(cond); t = self.solver.check(); self.solver.pop()
        self.solver.push(); self.solver.add(z3.Not(cond)); f = self.solver.check(); self.solver.pop()
        can_t, can_f = t != z3.unsat, f != z3.unsat
        if can_t and can_f:
            self.pending.append(self.trace + [False])
            d = True
        elif can_t:
            d = True
        elif can_f:
            d = False
        else:
            raise PathAbort()
        self.pos += 1
        self.decisions.append(d)
        self.trace.append(d)
        self.solver.add(cond if d else z3.Not(cond))
        return d

    def assume(self, cond, origin="pre"):
        cond = as_z3_bool(cond)
        self.assumes.append(origin)
        self.solver.add(cond)
        self.results.queries += 1
        if self.solver.check() == z3.unsat:
            raise PathAbort()

    # ---- obligations
    def prove(self, name, cond, detail=None):
        ob = self.results.ob(name)
        ob.hits += 1
        cond = as_z3_bool(cond)
        simp = z3.simplify(cond)
        if z3.is_true(simp):
            ob.proved += 1
            ob.trivial += 1
            return True
        t0 = time.time()
        self.results.queries += 1
        self.solver.push()
        self.solver.add(z3.Not(cond))
        exp = self.results.export
        smt = None
        if exp is not None and exp(name) and len(ob.smt2) < 4:
            smt = self.solver.to_smt2()
        r = self.solver.check()
        model = self.solver.model() if r == z3.sat else None
        reason = self.solver.reason_unknown() if r == z3.unknown else None
        backend2 = None
        if r == z3.unknown:
            # second back end takes z3's unknowns (sequence theory): cvc5 on the exported query
            ans = cvc5_check(self.solver.to_smt2())
            if ans == "unsat":
                r, backend2 = z3.unsat, "cvc5"
            elif ans == "sat":
                reason = "z3: unknown (%s); cvc5: sat (no model extracted)" % reason
            else:
                reason = "z3: unknown (%s); cvc5: %s" % (reason, ans)
        self.solver.pop()
        ob.time += time.time() - t0
        if backend2:
            ob.detail = "discharged by cvc5 (z3 returned unknown)"
        if smt is not None:
            ob.smt2.append((str(r), smt))
        if r == z3.unsat:
            ob.proved += 1
            if not has_quantifier(cond):   # proved quantifier-free claims become lemmas; quantified ones would only destabilise later queries
                self.solver.add(cond)
            return True
        if r == z3.sat:
            ob.failed += 1
            if ob.model is None:
                ob.model = {str(d): str(model[d]) for d in model.decls() if "!" not in str(d) or len(model.decls()) < 40}
                ob.inputs = self.eval_inputs(model)
                ob.detail = detail
        else:
            ob.unknown += 1
            ob.detail = "solver: unknown (%s)" % reason
        # continue the path under the claim so later obligations are still examined
        self.solver.add(cond)
        if self.solver.check() == z3.unsat:
            raise PathAbort()
        return False

    def fail_path(self, name, detail):
        """An outcome of the real code that the contract forbids on a feasible path (e.g. an exception)."""
        ob = self.results.ob(name)
        ob.hits += 1
        self.results.queries += 1
        r = self.solver.check()
        if r == z3.unsat:
            ob.proved += 1
            return
        if r == z3.unknown:
            ob.unknown += 1
            ob.detail = "path feasibility unknown: " + detail
            return
        ob.failed += 1
        if ob.model is None:
            model = self.solver.model()
            ob.model = {str(d): str(model[d]) for d in model.decls()}
            ob.inputs = self.eval_inputs(model)
            ob.detail = detail

    def reached(self, name):
        """Record that a feasible path reached this point holding the claim trivially (cover / outcome check)."""
        ob = self.results.ob(name)
        ob.hits += 1
        ob.proved += 1
        ob.trivial += 1

    def eval_inputs(self, model):
        out = {}
        for k, v in self.inputs.items():
            out[k] = model_value(model, v)
        return out


CVC5 = "/usr/bin/cvc5"
CVC5_TIMEOUT_S = 60


def cvc5_check(smt2):
    import os
    import subprocess
    import tempfile
    if not os.path.exists(CVC5):
        return "unavailable"
    if "(set-logic" not in smt2:
        smt2 = "(set-logic ALL)\n" + smt2
    fd, path = tempfile.mkstemp(suffix=".smt2")
    os.write(fd, smt2.encode())
    os.close(fd)
    try:
        p = subprocess.run([CVC5, "--strings-exp", "--tlimit=%d" % (CVC5_TIMEOUT_S * 1000), path], capture_output=True, text=True, timeout=CVC5_TIMEOUT_S + 10)
        ans = (p.stdout.strip().splitlines() or ["error"])[0]
        return ans if ans in ("sat", "unsat", "unknown") else "error(%s)" % (p.stdout + p.stderr).strip()[:80]
    except subprocess.TimeoutExpired:
        return "timeout"
    finally:
        os.unlink(path)


def has_quantifier(e):
    seen, todo = set(), [e]
    while todo:
        x = todo.pop()
        if x.get_id() in seen:
            continue
        seen.add(x.get_id())
        if z3.is_quantifier(x):
            return True
        todo.extend(x.children())
    return False


def model_value(model, v):
    """Concrete python value of a proxy / z3 term / container in a model (best effort, JSON-able)."""
    if isinstance(v, SymFloat) and v.bits is not None:
        e = model.eval(v.bits, model_completion=True)
        return {"float_bits": "%#018x" % e.as_long(), "float": fp_to_py(model.eval(v.z, model_completion=True))}
    if isinstance(v, (SymInt, SymBool, SymFloat)):
        v = v.z
    if isinstance(v, z3.ExprRef):
        e = model.eval(v, model_completion=True)
        if z3.is_int_value(e):
            return e.as_long()
        if z3.is_true(e):
            return True
        if z3.is_false(e):
            return False
        if z3.is_bv_value(e):
            return hex(e.as_long())
        if z3.is_fp(e):
            return fp_to_py(e)
        if z3.is_seq(e):
            n = model.eval(z3.Length(e), model_completion=True).as_long()
            return [model_value(model, e[i]) for i in range(n)]
        return str(e)
    if isinstance(v, SymSeq):
        return model_value(model, v.s)
    if isinstance(v, SymArrSeq):
        n = model.eval(v.length, model_completion=True).as_long()
        return [model_value(model, z3.Select(v.arr, i)) for i in range(min(max(n, 0), 64))]
    if isinstance(v, SymMap):
        return v.model_items(model)
    if isinstance(v, (list, tuple)):
        return [model_value(model, x) for x in v]
    if isinstance(v, dict):
        return {str(k): model_value(model, x) for k, x in v.items()}
    if v is None or isinstance(v, (int, str, bool, float)):
        return v
    return repr(v)


def fp_to_py(e):
    import struct
    e = z3.simplify(e)
    if z3.is_fp_value(e) or True:
        try:
            if e.isNaN():
                return "nan"
            if e.isInf():
                return "-inf" if e.isNegative() else "inf"
            if e.isZero():
                return "-0.0" if e.isNegative() else "0.0"
            bv = z3.simplify(z3.fpToIEEEBV(e))
            return repr(struct.unpack(">d", bv.as_long().to_bytes(8, "big"))[0])
        except Exception:  # pragma: no cover
            return str(e)


class HarnessResult:
    def __init__(self, name, results, wall, error=None):
        self.name = name
        self.results = results
        self.wall = wall
        self.error = error


def explore(fn, export=None, max_paths=200000, max_seconds=None):
    """Run fn(ctx) over all feasible paths; returns Results."""
    res = Results(export)
    pending = [[]]
    t0 = time.time()
    while pending:
        prefix = pending.pop()
        ctx = Ctx(res, prefix, pending)
        ctx.deadline = (t0 + max_seconds) if max_seconds else None
        Ctx.cur = ctx
        try:
            fn(ctx)
            res.paths += 1
        except PathAbort:
            pass
        except Unsupported as e:
            res.undecided_reason = "Unsupported: %s" % (e,)
            break
        except RecursionError as e:  # deep recursion of the explorer is an engine limit, not a verdict
            res.undecided_reason = "RecursionError"
            break
        except Exception as e:
            tb = traceback.extract_tb(e.__traceback__)
            where = "; ".join("%s:%d %s" % (f.filename.split("/")[-1], f.lineno, f.name) for f in tb[-3:])
            if _from_code_under_test(e):   # outcome of the real code that no contract clause caught
                ctx.fail_path("no_unexpected_exception", "%s: %s @ %s" % (type(e).__name__, e, where))
                res.paths += 1
            else:
                res.undecided_reason = "engine/harness error: %s: %s @ %s" % (type(e).__name__, e, where)
                break
        finally:
            Ctx.cur = None
        if res.paths > max_paths:
            res.undecided_reason = "path budget exceeded (%d)" % max_paths
            break
        if max_seconds and time.time() - t0 > max_seconds:
            res.undecided_reason = "time budget exceeded (%ss)" % max_seconds
            break
    res.wall = time.time() - t0
    return res


# --------------------------------------------------------------------------------------
# proxies

def as_z3_bool(c):
    if isinstance(c, SymBool):
        return c.z
    if isinstance(c, bool):
        return z3.BoolVal(c)
    if isinstance(c, z3.BoolRef):
        return c
    raise Unsupported("not a boolean claim: %r" % (c,))


def zint(x):
    if isinstance(x, SymInt):
        return x.z
    if isinstance(x, SymBool):
        return z3.If(x.z, 1, 0)
    if isinstance(x, bool):
        return z3.IntVal(int(x))
    if isinstance(x, int):
        return z3.IntVal(x)
    if isinstance(x, z3.ArithRef):
        return x
    raise Unsupported("int operand %r" % (x,))


def sb(x):
    """Lift to SymBool."""
    if isinstance(x, SymBool):
        return x
    if isinstance(x, z3.BoolRef):
        return SymBool(x)
    return SymBool(z3.BoolVal(bool(x)))


class SymBool:
    def __init__(self, z):
        self.z = z

    def __bool__(self):
        return Ctx.cur.decide(self.z)

    def __and__(self, o):
        return SymBool(z3.And(self.z, sb(o).z))

    __rand__ = __and__

    def __or__(self, o):
        return SymBool(z3.Or(self.z, sb(o).z))

    __ror__ = __or__

    def __invert__(self):
        return SymBool(z3.Not(self.z))

    def __eq__(self, o):
        if isinstance(o, (SymBool, bool)):
            return SymBool(self.z == sb(o).z)
        if isinstance(o, (int, SymInt)):
            return SymBool(z3.If(self.z, 1, 0) == zint(o))
        return False

    def __ne__(self, o):
        r = self.__eq__(o)
        return ~r if isinstance(r, SymBool) else True

    def __hash__(self):
        raise Unsupported("hash of SymBool")

    def __index__(self):
        raise Unsupported("concretisation of SymBool (__index__)")

    def __repr__(self):
        return "SymBool(%s)" % self.z


def implies(a, b):
    return SymBool(z3.Implies(sb(a).z, sb(b).z))


def ite(c, a, b):
    c = sb(c).z
    if isinstance(a, (SymBool, bool)) and isinstance(b, (SymBool, bool)):
        return SymBool(z3.If(c, sb(a).z, sb(b).z))
    return SymInt(z3.If(c, zint(a), zint(b)))


class SymInt:
    """Mathematical integer (Python's int is unbounded, so no machine-arithmetic approximation)."""

    def __init__(self, z):
        self.z = z

    @staticmethod
    def fresh(name):
        return SymInt(z3.Int(name))

    def __add__(s, o):
        return SymInt(s.z + zint(o))

    __radd__ = __add__

    def __sub__(s, o):
        return SymInt(s.z - zint(o))

    def __rsub__(s, o):
        return SymInt(zint(o) - s.z)

    def __mul__(s, o):
        return SymInt(s.z * zint(o))

    __rmul__ = __mul__

    def __neg__(s):
        return SymInt(-s.z)

    def __pos__(s):
        return s

    def __floordiv__(s, o):
        if isinstance(o, int) and not isinstance(o, bool) and o > 0:
            return SymInt(s.z / o)   # z3 Int division is floor division for a positive divisor
        raise Unsupported("floordiv by non-constant / non-positive")

    def __mod__(s, o):
        if isinstance(o, int) and not isinstance(o, bool) and o > 0:
            return SymInt(s.z % o)
        raise Unsupported("mod by non-constant / non-positive")

    # --- bit operators: partial encodings, each with a proved side condition
    def __and__(s, o):
        if isinstance(o, int) and o >= 0 and (o & (o + 1)) == 0:
            return SymInt(s.z % (o + 1))     # x & (2^k - 1) == x mod 2^k on Python ints (two's complement, infinite sign extension)
        raise Unsupported("& with a non-mask operand")

    __rand__ = __and__

    def __or__(s, o):
        oz = zint(o)
        Ctx.cur.prove("engine.bitor_side_condition: x % 256 == 0 and 0 <= y < 256 (then x|y == x+y)",
                      z3.And(s.z % 256 == 0, oz >= 0, oz < 256))
        return SymInt(s.z + oz)

    def __ror__(s, o):
        oz = zint(o)
        Ctx.cur.prove("engine.bitor_side_condition: x % 256 == 0 and 0 <= y < 256 (then x|y == x+y)",
                      z3.And(oz % 256 == 0, s.z >= 0, s.z < 256))
        return SymInt(s.z + oz)

    def bit_length(s):
        """int.bit_length: the number of bits of |x| (0 for 0); encoded exactly for |x| < 2^96, beyond that the path is undecided"""
        a = z3.If(s.z < 0, -s.z, s.z)
        if Ctx.cur.decide(a >= 2 ** 96):
            raise Unsupported("bit_length of an integer beyond 2^96")
        return SymInt(z3.Sum([z3.If(a >= 2 ** k, 1, 0) for k in range(96)]))

    def __lshift__(s, o):
        if isinstance(o, int) and o >= 0:
            return SymInt(s.z * (1 << o))
        raise Unsupported("<< by non-constant")

    def __rshift__(s, o):
        if isinstance(o, int) and o >= 0:
            return SymInt(s.z / (1 << o))    # floor, as Python's >> on ints
        raise Unsupported(">> by non-constant")

    def __lt__(s, o):
        return SymBool(s.z < zint(o))

    def __le__(s, o):
        return SymBool(s.z <= zint(o))

    def __gt__(s, o):
        return SymBool(s.z > zint(o))

    def __ge__(s, o):
        return SymBool(s.z >= zint(o))

    def __eq__(s, o):
        if isinstance(o, (int, SymInt, SymBool)):
            return SymBool(s.z == zint(o))
        return False

    def __ne__(s, o):
        if isinstance(o, (int, SymInt, SymBool)):
            return SymBool(s.z != zint(o))
        return True

    def __bool__(s):
        return Ctx.cur.decide(s.z != 0)

    def __hash__(s):
        raise Unsupported("hash of SymInt")

    def __index__(s):
        raise Unsupported("concretisation of SymInt (__index__)")

    def __int__(s):
        raise Unsupported("concretisation of SymInt (__int__)")

    def __repr__(s):
        return "SymInt(%s)" % s.z


class SymName(SymInt):
    """An opaque non-empty str (a name), identified by an integer id.  Truthiness is True (WF: names are non-empty)."""

    def __bool__(s):
        return True

    def __hash__(s):
        raise Unsupported("hash of an opaque name")


F64 = z3.Float64()


class SymFloat:
    """IEEE-754 binary64; == is fp.eq as for Python floats."""
    py_type = float

    def __init__(self, z, bits=None):
        self.z = z
        self.bits = bits        # the IEEE-754 bit pattern when known: SMT-LIB has a single NaN, Python's NaNs carry a sign and a payload

    @staticmethod
    def fresh(name):
        bits = z3.BitVec(name + "_bits", 64)
        return SymFloat(z3.fpBVToFP(bits, F64), bits)

    def sign_bit(s):
        """the IEEE sign bit (also of a NaN), as math.copysign sees it"""
        if s.bits is not None:
            return z3.Extract(63, 63, s.bits) == 1
        return z3.fpIsNegative(s.z)

    def __eq__(s, o):
        if isinstance(o, SymFloat):
            return SymBool(z3.fpEQ(s.z, o.z))
        if isinstance(o, float):
            return SymBool(z3.fpEQ(s.z, z3.FPVal(o, F64)))
        if isinstance(o, int) and not isinstance(o, bool):
            return SymBool(z3.fpEQ(s.z, z3.FPVal(float(o), F64))) if abs(o) < 2 ** 53 else NotImplemented
        return False

    def __ne__(s, o):
        r = s.__eq__(o)
        return ~r if isinstance(r, SymBool) else True

    def _cmp(s, o, f):
        if isinstance(o, SymFloat):
            return SymBool(f(s.z, o.z))
        if isinstance(o, (int, float)) and not isinstance(o, bool):
            return SymBool(f(s.z, z3.FPVal(float(o), F64)))
        raise Unsupported("float comparison with %r" % (o,))

    def __lt__(s, o):
        return s._cmp(o, z3.fpLT)

    def __le__(s, o):
        return s._cmp(o, z3.fpLEQ)

    def __gt__(s, o):
        return s._cmp(o, z3.fpGT)

    def __ge__(s, o):
        return s._cmp(o, z3.fpGEQ)

    def __hash__(s):
        raise Unsupported("hash(SymFloat)")

    def __float__(s):
        raise Unsupported("concretisation of SymFloat")

    def __repr__(s):
        return "SymFloat(%s)" % s.z


def fp_same_bits_mod_nan(a, b):
    """Type/bit-exact float equality with all NaNs identified (CPython's constant-key partition + NaN merging)."""
    return z3.Or(z3.And(z3.fpIsNaN(a), z3.fpIsNaN(b)),
                 z3.And(z3.Not(z3.fpIsNaN(a)), z3.Not(z3.fpIsNaN(b)), z3.fpEQ(a, b),
                        z3.fpIsNegative(a) == z3.fpIsNegative(b)))


IntSeq = z3.SeqSort(z3.IntSort())


class SymSeq:
    """tuple[...] of symbolic length over opaque element ids (z3 Seq Int).  Supports slicing with symbolic bounds."""

    def __init__(self, s):
        self.s = s

    @staticmethod
    def fresh(name):
        return SymSeq(z3.Const(name, IntSeq))

    def plen(self):
        return SymInt(z3.Length(self.s))

    def __getitem__(self, i):
        n = z3.Length(self.s)
        if isinstance(i, slice):
            if i.step is not None:
                raise Unsupported("slice step")
            lo = z3.IntVal(0) if i.start is None else zint(i.start)
            hi = n if i.stop is None else zint(i.stop)
            Ctx.cur.prove("engine.slice_bounds_non_negative (Python would wrap negative bounds)", z3.And(lo >= 0, hi >= 0))
            lo2 = z3.If(lo > n, n, lo)
            hi2 = z3.If(hi > n, n, hi)
            return SymSeq(z3.SubSeq(self.s, lo2, z3.If(hi2 - lo2 < 0, 0, hi2 - lo2)))
        iz = zint(i)
        Ctx.cur.prove("engine.index_non_negative (Python would wrap a negative index)", iz >= 0)
        if not Ctx.cur.decide(iz < n):
            raise sem(IndexError("tuple index out of range"))
        return SymInt(self.s[iz])

    def __eq__(self, o):
        if isinstance(o, SymSeq):
            return SymBool(self.s == o.s)
        if isinstance(o, tuple) and all(isinstance(x, (int, SymInt)) for x in o):
            if not o:
                return SymBool(z3.Length(self.s) == 0)
            return SymBool(self.s == z3.Concat(*[z3.Unit(zint(x)) for x in o]) if len(o) > 1 else self.s == z3.Unit(zint(o[0])))
        return False

    def __add__(self, o):
        if isinstance(o, SymSeq):
            return SymSeq(z3.Concat(self.s, o.s))
        if isinstance(o, tuple):
            if not o:
                return self
            if all(isinstance(x, (int, SymInt)) for x in o):
                return SymSeq(z3.Concat(self.s, *[z3.Unit(zint(x)) for x in o]))
        raise Unsupported("SymSeq + %r" % (o,))

    def __radd__(self, o):
        if isinstance(o, tuple) and not o:
            return self
        if isinstance(o, tuple) and all(isinstance(x, (int, SymInt)) for x in o):
            return SymSeq(z3.Concat(*([z3.Unit(zint(x)) for x in o] + [self.s])))
        raise Unsupported("%r + SymSeq" % (o,))

    def __hash__(self):
        raise Unsupported("hash(SymSeq)")

    def __iter__(self):
        raise Unsupported("iteration over a symbolic-length sequence (needs a loop invariant / generic-element rule)")

    def __len__(self):
        raise Unsupported("len() coercion of a symbolic length")


class SymArrSeq:
    """Sequence of symbolic length backed by Array Int->Int (elements are ints or opaque ids)."""

    def __init__(self, arr, length):
        self.arr, self.length = arr, length

    @staticmethod
    def fresh(name):
        return SymArrSeq(z3.Array(name, z3.IntSort(), z3.IntSort()), z3.Int(name + "_len"))

    def plen(self):
        return SymInt(self.length)

    def __getitem__(self, i):
        iz = zint(i)
        Ctx.cur.prove("engine.index_non_negative (Python would wrap a negative index)", iz >= 0)
        if not Ctx.cur.decide(iz < self.length):
            raise sem(IndexError("tuple index out of range"))
        return SymInt(z3.Select(self.arr, iz))

    def __iter__(self):
        raise Unsupported("iteration over a symbolic-length sequence")

    def __len__(self):
        raise Unsupported("len() coercion of a symbolic length")

    def __hash__(self):
        raise Unsupported("hash(SymArrSeq)")


class SymMap:
    """Abstract view of a dict[int,int]: domain array, value array, size.

    `size` is the number of keys; reachable states have size == |dom| (stated by the
    harness where needed; counter-models are repaired to reachable states before replay)."""

    def __init__(self, dom, val, size):
        self.dom, self.val, self.size = dom, val, size
        self.touched = []

    @staticmethod
    def fresh(name):
        return SymMap(z3.Array(name + "_dom", z3.IntSort(), z3.BoolSort()),
                      z3.Array(name + "_val", z3.IntSort(), z3.IntSort()), z3.Int(name + "_size"))

    @staticmethod
    def empty():
        return SymMap(z3.K(z3.IntSort(), z3.BoolVal(False)), z3.K(z3.IntSort(), z3.IntVal(0)), z3.IntVal(0))

    def __contains__(self, k):
        kz = zint(k)
        self.touched.append(kz)
        return bool(SymBool(z3.Select(self.dom, kz)))

    def __getitem__(self, k):
        kz = zint(k)
        self.touched.append(kz)
        if not Ctx.cur.decide(z3.Select(self.dom, kz)):
            raise sem(KeyError(k))
        return SymInt(z3.Select(self.val, kz))

    def __setitem__(self, k, v):
        kz = zint(k)
        self.touched.append(kz)
        self.size = z3.If(z3.Select(self.dom, kz), self.size, self.size + 1)
        self.dom = z3.Store(self.dom, kz, True)
        self.val = z3.Store(self.val, kz, zint(v))

    def setdefault(self, k, v):
        if k in self:
            return self[k]
        self[k] = v
        return v

    def get(self, k, default=None):
        if k in self:
            return self[k]
        return default

    def plen(self):
        return SymInt(self.size)

    def snapshot(self):
        m = SymMap(self.dom, self.val, self.size)
        m.touched = self.touched      # shared: keys touched later are still reported against the entry state
        return m

    def __bool__(self):
        return Ctx.cur.decide(self.size != 0)

    def __len__(self):
        raise Unsupported("len() coercion of a symbolic dict size")

    def __iter__(self):
        raise Unsupported("iteration over a symbolic dict")

    def items(self):
        raise Unsupported("iteration over a symbolic dict")

    def model_items(self, model):
        out = {}
        for kz in self.touched:
            k = model.eval(kz, model_completion=True)
            if z3.is_true(model.eval(z3.Select(self.dom, k), model_completion=True)):
                out[str(k)] = str(model.eval(z3.Select(self.val, k), model_completion=True))
        return out


def plen(x):
    """len() hook: proxy-aware, and never coerces a user-defined __len__ result to int."""
    if hasattr(x, "plen"):
        return x.plen()
    t = type(x)
    if t.__module__ != "builtins" and "__len__" in t.__dict__:
        return t.__len__(x)
    return len(x)


def is_sym(x):
    return isinstance(x, (SymInt, SymBool, SymFloat, SymSeq, SymArrSeq, SymMap))
