"""Worker process: one interpreter configuration, a list of harnesses.  python3-vt -m pcv.worker job.json out.json"""
from __future__ import annotations

import hashlib
import json
import sys
import time
import traceback


def main():
    job = json.load(open(sys.argv[1]))
    from . import config
    config.REPO = job.get("repo", config.REPO)
    tables = job["tables"]
    config.apply_config(tables)
    from . import core, rewrite
    from .registry import HARNESSES
    import contracts  # noqa: F401  registers all harnesses (imports the real code_data modules)
    cfg = config.Cfg(job["ver"], tables)
    seed = job.get("seed", 0)
    mode = job.get("export", "sample")

    def export(name):
        if mode == "all":
            return True
        if mode == "none":
            return False
        h = hashlib.sha256(("%s|%s" % (name, seed)).encode()).digest()[0]
        return h % 8 == 0

    out = []
    # contracts bind to functions by qualified name AND parameter list: a function whose parameter list differs from the one its contract was written
    # against makes every harness naming it undecided (the harness would call it wrongly and mistake its own TypeError for an outcome)
    import os
    try:
        pinned = json.load(open(os.path.join(config.VERIF, "baseline_signatures.json")))
    except Exception:
        pinned = {}
    current = rewrite.library_signatures(config.REPO)
    for hname in job["harnesses"]:
        h = HARNESSES[hname]
        rewrite.REWRITE_LOG.clear()
        t0 = time.time()
        rec = {"harness": hname, "config": job["ver"], "engine": h.engine, "expect": h.expect, "props": list(h.props),
               "functions": list(h.functions), "assumes": list(h.assumes), "notes": h.notes, "soft": h.soft}
        drift = []
        for f in h.functions:
            if f in pinned and current.get(f) != pinned[f]:
                cur = current.get(f)
                if cur is not None and cur[:1] == ["<fields>"] and pinned[f][:1] == ["<fields>"] and cur[:len(pinned[f])] == pinned[f]:
                    continue        # fields appended to a class: positional construction in the contracts is unaffected
                drift.append("%s%s, contract written against %s" % (f, "(%s)" % ", ".join(cur) if cur is not None else " is gone", "(%s)" % ", ".join(pinned[f])))
        if drift:
            rec.update(paths=0, queries=0, obligations=[], smt2=[], undecided_reason="signature changed: " + "; ".join(drift), wall_s=0.0, rewrites=[])
            out.append(rec)
            continue
        try:
            # hard wall-clock limit per harness: a path that never ends (a loop of the code under test that no longer terminates on symbolic input) is an
            # undecided harness, never a hanging check
            import signal

            class HarnessTimeout(BaseException):
                pass

            def _alarm(signum, frame):
                raise HarnessTimeout()
            limit = int(job.get("max_seconds", 900))
            signal.signal(signal.SIGALRM, _alarm)
            signal.alarm(limit + 30)
            try:
                res = core.explore(lambda ctx: h.fn(ctx, cfg), export=export, max_seconds=limit)
            except HarnessTimeout:
                signal.alarm(0)
                rec.update(paths=0, queries=0, obligations=[], smt2=[], undecided_reason="time budget exceeded (%ss): one path did not end" % limit)
                rec["wall_s"] = round(time.time() - t0, 3)
                rec["rewrites"] = [list(r) for r in rewrite.REWRITE_LOG]
                out.append(rec)
                continue
            finally:
                signal.alarm(0)
            rec.update(paths=res.paths, queries=res.queries, undecided_reason=res.undecided_reason,
                       obligations=[o.to_json() for o in res.obs.values()],
                       smt2=[{"name": o.name, "z3": r, "text": t} for o in res.obs.values() for (r, t) in o.smt2])
        except Exception as e:   # engine crash: never a verdict
            rec.update(paths=0, queries=0, obligations=[], smt2=[],
                       undecided_reason="engine error: %s: %s\n%s" % (type(e).__name__, e, traceback.format_exc()[-1500:]),
                       engine_error=True)
        rec["wall_s"] = round(time.time() - t0, 3)
        rec["rewrites"] = [list(r) for r in rewrite.REWRITE_LOG]
        out.append(rec)
    json.dump({"results": out, "functions": rewrite.FUNCTIONS_LOG}, open(sys.argv[2], "w"))


if __name__ == "__main__":
    main()
