"""Mechanical source rewrites applied to the text read from /repo on every run.

Nothing here changes what the code computes on concrete values: builtin routing sends a
call to a hook that *is* the builtin when no argument is a proxy; loop cut-points replace
an (unbounded) loop by `assert I; havoc; assume I; if cond: body; assert I; stop`;
fragment extraction lifts a statement, byte for byte, into a stand-alone function.
Every rewrite is logged (file, line, kind) and reported in the evidence.
"""
from __future__ import annotations

import ast
import os
import copy
import hashlib
import sys

from .core import Unsupported

REWRITE_LOG = []        # [(kind, module, qualname, lineno, note)]
FUNCTIONS_LOG = {}      # qualname -> {"file", "line", "sha256"}


class BindingError(Unsupported):
    """An anchor / function / name a contract refers to is not present in the current source
    (the code was refactored): the obligation is undecided, not failed."""


class Source:
    _cache = {}

    def __init__(self, module):
        self.module = module
        self.file = module.__file__
        self.text = open(self.file, encoding="utf-8").read()
        self.tree = ast.parse(self.text)
        self.lines = self.text.splitlines()

    @classmethod
    def of(cls, module):
        key = module.__name__
        if key not in cls._cache:
            cls._cache[key] = cls(module)
        return cls._cache[key]

    def get_def(self, qualname):
        """Top-level function / class, or Class.method."""
        parts = qualname.split(".")
        body = self.tree.body
        node = None
        for p in parts:
            node = next((n for n in body if isinstance(n, (ast.FunctionDef, ast.ClassDef)) and n.name == p), None)
            if node is None:
                raise BindingError("%s: no definition %r in %s" % (self.module.__name__, qualname, self.file))
            body = node.body
        self.note_function(qualname, node)
        return node

    def note_function(self, qualname, node):
        seg = "\n".join(self.lines[node.lineno - 1: node.end_lineno])
        FUNCTIONS_LOG["%s.%s" % (self.module.__name__, qualname)] = {
            "file": self.file, "line": node.lineno, "sha256": hashlib.sha256(seg.encode()).hexdigest()[:16]}


class BuiltinRouter(ast.NodeTransformer):
    def __init__(self, names, modname, qualname):
        self.names, self.modname, self.qualname = set(names), modname, qualname

    def visit_Call(self, n):
        self.generic_visit(n)
        if isinstance(n.func, ast.Name) and n.func.id in self.names:
            REWRITE_LOG.append(("builtin-routing", self.modname, self.qualname, n.lineno, n.func.id))
            n.func = ast.copy_location(ast.Name("pvhook_" + n.func.id, ast.Load()), n.func)
        return n


def assigned_names(nodes):
    out = set()
    for node in nodes:
        for n in ast.walk(node):
            tgts = []
            if isinstance(n, ast.AugAssign):
                tgts = [n.target]
            elif isinstance(n, ast.Assign):
                tgts = n.targets
            elif isinstance(n, ast.AnnAssign) and n.value is not None:
                tgts = [n.target]
            elif isinstance(n, (ast.For,)):
                tgts = [n.target]
            for t in tgts:
                for m in ast.walk(t):
                    if isinstance(m, ast.Name) and isinstance(m.ctx, ast.Store):
                        out.add(m.id)
    return sorted(out)


class WhileCutter(ast.NodeTransformer):
    """Rule 2 for `while` loops.  `invs` maps (enclosing function name, loop ordinal) -> invariant expression text.
    The invariant may mention the function's locals, and the harness-provided names `pv`, `G`, `E`."""

    def __init__(self, invs, modname, qualname):
        self.invs, self.modname, self.qualname = dict(invs), modname, qualname
        self.stack, self.count, self.used = [], {}, set()

    def visit_FunctionDef(self, node):
        self.stack.append(node.name)
        self.count.setdefault(node.name, 0)
        self.generic_visit(node)
        self.stack.pop()
        return node

    def visit_While(self, node):
        f = self.stack[-1]
        ordn = self.count[f]
        self.count[f] += 1
        key = (f, ordn)
        self.generic_visit(node)
        if key not in self.invs:
            return node
        if node.orelse:
            raise Unsupported("while/else at a cut-point")
        self.used.add(key)
        inv = self.invs[key]
        label = "%s.while%d" % (f, ordn)
        hv = assigned_names(node.body)
        REWRITE_LOG.append(("loop-cut-point", self.modname, self.qualname, node.lineno, "%s havoc=%s" % (label, ",".join(hv))))
        pre = "pv.assert_inv(%r, %s)\n" % (label + ".inv_on_entry", inv)
        for v in hv:
            pre += "%s = pv.havoc(%r, %r, %s)\n" % (v, label, v, v)
        pre += "pv.havoc_ghost(%r)\n" % label
        pre += "pv.assume_inv(%r, %s)\n" % (label, inv)
        post = "pv.assert_inv(%r, %s)\npv.cut()\n" % (label + ".inv_preserved", inv)
        new = ast.parse(pre).body
        iff = ast.If(test=node.test, body=node.body + ast.parse(post).body, orelse=[])
        out = new + [iff]
        for n in out:
            ast.copy_location(n, node)
        return out

    def check_all_used(self):
        missing = set(self.invs) - self.used
        if missing:
            raise BindingError("loop invariants without a matching loop: %s" % sorted(missing))


def find_stmt(funcdef, pred, what):
    """First statement (depth-first, source order) inside funcdef for which pred(node, unparsed_text) holds."""
    for n in ast.walk(funcdef):
        if isinstance(n, ast.stmt) and n is not funcdef:
            try:
                txt = ast.unparse(n)
            except Exception:  # pragma: no cover
                continue
            if pred(n, txt):
                return n
    raise BindingError("anchor not found: %s in %s" % (what, funcdef.name))


def make_function(name, params, body, modname, qualname, note):
    """Fragment extraction (rule 5): body statements are the repository's, verbatim (deep-copied AST)."""
    body = [copy.deepcopy(b) for b in body]
    # a name the lifted statements only ever update in place (`x += ...`) is initialised outside them: it must be one of the fragment's parameters,
    # otherwise the fragment's own UnboundLocalError would be mistaken for an outcome of the code
    total, aug = {}, {}
    for b in body:
        for n in ast.walk(b):
            if isinstance(n, ast.Name) and isinstance(n.ctx, ast.Store):
                total[n.id] = total.get(n.id, 0) + 1
            if isinstance(n, ast.AugAssign) and isinstance(n.target, ast.Name):
                aug[n.target.id] = aug.get(n.target.id, 0) + 1
    stale = sorted(k for k in aug if aug[k] == total.get(k, 0) and k not in params)
    if stale:
        raise BindingError("fragment %s updates %s in place but no longer initialises it: the statements the contract was written for have moved" % (name, ", ".join(stale)))
    for b in body[1:]:           # synthetic trailing statements (e.g. a `return`) take the location of the lifted statement
        if getattr(b, "lineno", 0) < body[0].lineno:
            for n in ast.walk(b):
                if hasattr(n, "lineno"):
                    n.lineno = n.end_lineno = getattr(body[0], "end_lineno", body[0].lineno)
    try:        # names the enclosing function assigns outside the lifted statements (see core._from_code_under_test)
        from . import core as _core
        enclosing = Source.of(sys.modules[modname]).get_def(qualname)
        lo, hi = min(b.lineno for b in body if getattr(b, "lineno", 0)), max(getattr(b, "end_lineno", b.lineno) for b in body)
        outer = set()
        for n in ast.walk(enclosing):
            if isinstance(n, ast.Name) and isinstance(n.ctx, ast.Store) and not (lo <= n.lineno <= hi):
                outer.add(n.id)
        _core.FRAGMENT_OUTER_STORES[name] = outer - set(params)
    except Exception:
        pass
    REWRITE_LOG.append(("fragment-extraction", modname, qualname, body[0].lineno, note))
    fn = ast.FunctionDef(
        name=name,
        args=ast.arguments(posonlyargs=[], args=[ast.arg(p) for p in params], kwonlyargs=[], kw_defaults=[], defaults=[]),
        body=body, decorator_list=[], lineno=body[0].lineno, col_offset=0,
        end_lineno=max(getattr(b, "end_lineno", b.lineno) for b in body), end_col_offset=0)
    return fn


def compile_defs(module, defs, extra_ns, tag):
    """exec the (rewritten) definitions in a copy of the module's globals + hooks."""
    m = ast.Module(body=[d for d in defs], type_ignores=[])
    ast.fix_missing_locations(m)
    ns = dict(vars(module))
    ns.update(extra_ns)
    exec(compile(m, "<%s:%s>" % (module.__name__, tag), "exec"), ns)
    return ns


def load(module, qualnames, hooks=None, while_invs=None, extra_ns=None, tag="pcv"):
    """Re-read `module`'s source, take the named top-level definitions, apply rules 1/2, exec them.
    hooks: {builtin name: callable}.  Returns the namespace."""
    src = Source.of(module)
    hooks = hooks or {}
    defs = []
    for q in qualnames:
        node = copy.deepcopy(src.get_def(q))
        if isinstance(node, ast.ClassDef):
            for sub in node.body:
                if isinstance(sub, ast.FunctionDef):
                    src.note_function("%s.%s" % (q, sub.name), sub)
        if hooks:
            node = BuiltinRouter(hooks, module.__name__, q).visit(node)
        if while_invs:
            w = WhileCutter(while_invs.get(q, {}), module.__name__, q)
            node = w.visit(node)
            w.check_all_used()
        defs.append(node)
    ns = {("pvhook_" + k): v for k, v in hooks.items()}
    ns.update(extra_ns or {})
    return compile_defs(module, defs, ns, tag)



def library_signatures(repo):
    """qualified name -> parameter list (with * / ** markers) of every function and method of the library modules, read from the source text"""
    import glob
    out = {}
    for path in sorted(glob.glob(os.path.join(repo, "code_data", "*.py"))):
        base = os.path.basename(path)[:-3]
        if "test" in base or base == "module_codes":
            continue
        mod = "code_data" if base == "__init__" else "code_data." + base
        try:
            tree = ast.parse(open(path, encoding="utf-8").read())
        except SyntaxError:
            continue

        def sig(fn):
            a = fn.args
            return ([x.arg for x in a.posonlyargs + a.args] + (["*" + a.vararg.arg] if a.vararg else []) + [x.arg for x in a.kwonlyargs] + (["**" + a.kwarg.arg] if a.kwarg else []))
        for node in tree.body:
            if isinstance(node, (ast.FunctionDef, ast.AsyncFunctionDef)):
                out["%s.%s" % (mod, node.name)] = sig(node)
            elif isinstance(node, ast.ClassDef):
                fields = [st.target.id for st in node.body if isinstance(st, ast.AnnAssign) and isinstance(st.target, ast.Name)]
                out["%s.%s" % (mod, node.name)] = ["<fields>"] + fields
                for m in node.body:
                    if isinstance(m, (ast.FunctionDef, ast.AsyncFunctionDef)):
                        out["%s.%s.%s" % (mod, node.name, m.name)] = sig(m)
    return out
