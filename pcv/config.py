"""Interpreter versions as a configuration dimension.

The verified functions read their version dependence from `dis`/`opcode`/`__future__` tables and
three gates (`_blocks._ATLEAST_310`, `_line_mapping.USE_LINETABLE`, `sys.version_info` in
`_code_data`).  The tables are exported live from the real interpreters on every run
(fallback: the snapshot in /verif/data, reported in the evidence) and patched in *before*
`code_data` is imported in the worker process.
"""
from __future__ import annotations

import json
import os
import subprocess
import sys
import types

VERIF = os.path.dirname(os.path.dirname(os.path.abspath(__file__)))
REPO = os.environ.get("PCV_REPO", "/repo")
VERSIONS = ["3.7", "3.8", "3.9", "3.10"]
PYENV = {"3.7": "3.7.16", "3.8": "3.8.18", "3.9": "3.9.18", "3.10": "3.10.13", "3.11": "3.11.7", "3.12": "3.12.1", "3.13": "3.13.0"}

EXPORT_SNIPPET = r"""
import dis, opcode, sys, json, __future__
print(json.dumps({
 "version": list(sys.version_info[:3]),
 "opmap": dis.opmap, "opname": list(dis.opname),
 "hasjabs": list(dis.hasjabs), "hasjrel": list(dis.hasjrel), "hasname": list(dis.hasname),
 "haslocal": list(dis.haslocal), "hasfree": list(dis.hasfree), "hasconst": list(dis.hasconst),
 "hascompare": list(dis.hascompare),
 "EXTENDED_ARG": dis.EXTENDED_ARG, "HAVE_ARGUMENT": opcode.HAVE_ARGUMENT,
 "COMPILER_FLAG_NAMES": {str(k): v for k, v in dis.COMPILER_FLAG_NAMES.items()},
 "all_feature_names": list(__future__.all_feature_names),
 "future_flags": {n: getattr(__future__, n).compiler_flag for n in __future__.all_feature_names},
}))
"""


def interpreter(ver):
    p = "/root/.pyenv/versions/%s/bin/python" % PYENV[ver]
    return p if os.path.exists(p) else None


def export_tables(ver):
    """(tables, source) where source is 'live' or 'snapshot'."""
    exe = interpreter(ver)
    if exe:
        try:
            out = subprocess.run([exe, "-c", EXPORT_SNIPPET], capture_output=True, text=True, timeout=60, check=True).stdout
            return json.loads(out), "live:" + exe
        except Exception:  # fall through to the snapshot
            pass
    path = os.path.join(VERIF, "data", "tables-%s.json" % ver)
    return json.load(open(path)), "snapshot:" + path


def apply_config(tables):
    """Patch dis/opcode/__future__ in this process, import code_data from REPO, set the gates."""
    import dis
    import opcode
    import __future__ as fut
    ver = tuple(tables["version"])
    dis.opmap = dict(tables["opmap"])
    dis.opname = list(tables["opname"])
    for k in ("hasjabs", "hasjrel", "hasname", "haslocal", "hasfree", "hasconst", "hascompare"):
        setattr(dis, k, list(tables[k]))
    dis.EXTENDED_ARG = tables["EXTENDED_ARG"]
    dis.HAVE_ARGUMENT = tables["HAVE_ARGUMENT"]
    opcode.HAVE_ARGUMENT = tables["HAVE_ARGUMENT"]
    opcode.EXTENDED_ARG = tables["EXTENDED_ARG"]
    dis.COMPILER_FLAG_NAMES = {int(k): v for k, v in tables["COMPILER_FLAG_NAMES"].items()}
    for n in list(getattr(fut, "all_feature_names", [])):
        if n not in tables["future_flags"] and hasattr(fut, n):
            delattr(fut, n)
    fut.all_feature_names = list(tables["all_feature_names"])
    for n, flag in tables["future_flags"].items():
        setattr(fut, n, types.SimpleNamespace(compiler_flag=flag))
    if REPO not in sys.path:
        sys.path.insert(0, REPO)
    sys.dont_write_bytecode = True
    # every module the library may import is loaded under the host's own version first; the library itself is then imported - and keeps running -
    # under the configured version, so a version test written anywhere in it (module level or inside a function) reads the configuration
    import argparse, ast, base64, collections, copy, ctypes, dataclasses, enum, importlib, importlib.util, inspect, itertools, math, pathlib, pkgutil, typing  # noqa: F401,E401
    try:
        import typing_extensions  # noqa: F401
    except ImportError:
        pass
    fake_sys = FakeSys(ver)
    real_vi = sys.version_info
    sys.version_info = fake_sys.version_info
    try:
        import code_data
        import code_data._blocks as B
        import code_data._line_mapping as L
        import code_data._code_data as CD
        import code_data._flags_data  # noqa: F401  (built from the patched tables at import)
        import code_data._json_data, code_data._normalize, code_data._args, code_data._constants  # noqa: F401,E401
    finally:
        sys.version_info = real_vi
    B._ATLEAST_310 = ver >= (3, 10)
    L.USE_LINETABLE = ver >= (3, 10)
    for name, mod in list(sys.modules.items()):
        if (name == "code_data" or name.startswith("code_data.")) and mod is not None and getattr(mod, "sys", None) is sys:
            mod.sys = fake_sys
    CD.sys = fake_sys
    B.HAVE_ARGUMENT = tables["HAVE_ARGUMENT"]
    return code_data


class FakeSys(object):
    """`sys` as the library sees it under a configuration: version_info/hexversion of the configured interpreter, everything else the host's"""

    def __init__(self, ver):
        import collections
        VI = collections.namedtuple("version_info", "major minor micro releaselevel serial")
        self.version_info = VI(ver[0], ver[1], ver[2] if len(ver) > 2 else 0, "final", 0)
        self.hexversion = (ver[0] << 24) | (ver[1] << 16) | ((ver[2] if len(ver) > 2 else 0) << 8) | 0xF0

    def __getattr__(self, name):
        return getattr(sys, name)


class Cfg:
    """What a harness sees of the configuration."""

    def __init__(self, ver, tables):
        self.ver = ver
        self.vt = tuple(tables["version"][:2])
        self.tables = tables
        self.atleast_310 = self.vt >= (3, 10)
        self.linetable = self.vt >= (3, 10)

    def __repr__(self):
        return "py%s" % self.ver
