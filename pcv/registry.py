"""Harness registry.  A harness is `fn(ctx, cfg)`: it calls real (re-read, mechanically rewritten) functions of /repo
on proxies and states the contract clauses with ctx.prove / ctx.assume."""
from __future__ import annotations

HARNESSES = {}


class Harness:
    def __init__(self, name, fn, props, functions, configs, expect, cost, assumes, notes, engine, soft=False):
        self.soft = soft
        self.name, self.fn, self.props, self.functions = name, fn, tuple(props), tuple(functions)
        self.configs, self.expect, self.cost = configs, expect, cost
        self.assumes, self.notes, self.engine = tuple(assumes), notes, engine


def harness(name, props, functions=(), configs="all", expect="proved", cost=1, assumes=(), notes="", engine="E1", soft=False):
    """configs: "all" (once per interpreter version 3.7-3.10) | "any" (code has no version dependence: run under one
    configuration) | list of versions.  expect="failed" marks a canary: a known-false obligation that must come back sat.
    engine: "E1" deductive (unbounded) | "E2" bounded symbolic (bound stated in notes).
    soft=True: the obligations are a *sufficient* syntactic condition for the property (e.g. "no caching decorator"); when one fails the
    proof is lost (undecided) but nothing is refuted - the bounded engines decide the run."""
    def deco(fn):
        if name in HARNESSES:
            raise RuntimeError("duplicate harness " + name)
        HARNESSES[name] = Harness(name, fn, props, functions, configs, expect, cost, assumes, notes, engine, soft)
        return fn
    return deco


def versions_of(h, all_versions):
    if h.configs == "all":
        return list(all_versions)
    if h.configs == "any":
        return [all_versions[-1]]
    return [v for v in h.configs if v in all_versions]
