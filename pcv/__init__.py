"""pcv - proxy-based contract verifier for the real functions of /repo/code_data (see DESIGN.md section 2)."""
