import sys, ast, z3, math, base64
sys.path.insert(0, "/repo")
from symex import *
from symex import _z
import code_data._json_data as J
import code_data

F64 = z3.Float64()
class SymFloat:
    def __init__(s, z): s.z = z
    def __gt__(s, o): return SymBool(z3.fpGT(s.z, z3.FPVal(float(o), F64)))
    def __lt__(s, o): return SymBool(z3.fpLT(s.z, z3.FPVal(float(o), F64)))
    def __eq__(s, o):
        if isinstance(o, SymFloat): return SymBool(z3.fpEQ(s.z, o.z))
        if o is Ellipsis: return False
        if isinstance(o, (int, float)): return SymBool(z3.fpEQ(s.z, z3.FPVal(float(o), F64)))
        return False
    def __hash__(s): raise Unsupported("hash float")
class SymStr:
    """opaque str: identity + one symbolic attribute: utf-8 encodable?"""
    n = 0
    def __init__(s, name): s.name = name; s.encodable = z3.Bool(name + "_utf8ok")
    def encode(s, enc):
        assert enc == "utf-8"
        if Ctx.cur.decide(s.encodable): return b"<opaque>"
        raise UnicodeEncodeError("utf-8", "x", 0, 1, "surrogates not allowed")
    def __eq__(s, o): return s is o
    def __hash__(s): return id(s)
class ReprOf:      # repr(SymStr): opaque str literal; assumed contract: literal_eval(repr(s)) == s for str
    def __init__(s, of): s.of = of
class Opaque:      # a bytes payload / b64 text
    def __init__(s, tag, of=None): s.tag, s.of = tag, of
    def decode(s, enc): return Opaque("b64text", s.of)
class OpaqueConst:  # element of a container: induction hypothesis  from_json(to_json(x)) == x
    def __init__(s, i): s.i = i
class JsonOf:
    def __init__(s, of): s.of = of

def h_isinstance(x, t):
    ts = t if isinstance(t, tuple) else (t,)
    for cls, py in ((SymFloat, float), (SymInt, int), (SymStr, str), (ReprOf, str)):
        if isinstance(x, cls): return any(issubclass(py, k) for k in ts if isinstance(k, type))
    if isinstance(x, Opaque) and x.tag == "bytes": return bytes in ts
    if isinstance(x, Opaque) and x.tag == "b64text": return str in ts
    if isinstance(x, (OpaqueConst, JsonOf)): return False
    return isinstance(x, t)
def h_isinf(x): return bool(SymBool(z3.fpIsInf(x.z))) if isinstance(x, SymFloat) else math.isinf(x)
def h_isnan(x): return bool(SymBool(z3.fpIsNaN(x.z))) if isinstance(x, SymFloat) else math.isnan(x)
def h_str(x):
    if isinstance(x, SymInt): return ("strof", x)
    return str(x)
def h_int(x):
    if isinstance(x, tuple) and x[0] == "strof": return x[1]          # assumed: int(str(n)) == n
    return int(x)
def h_repr(x): return ReprOf(x) if isinstance(x, SymStr) else repr(x)
def h_literal_eval(x):
    if isinstance(x, ReprOf): return x.of                               # assumed: literal_eval(repr(s)) == s
    raise Unsupported("literal_eval of %r" % (x,))
def h_b64encode(x): return Opaque("b64", x)
def h_b64decode(x):
    if isinstance(x, Opaque) and x.tag == "b64text": return x.of       # assumed: b64decode(b64encode(b).decode()) == b
    raise Unsupported("b64decode")
def h_float(x): return float(x)
def h_complex(a, b): return ("complex", a, b)
HOOKS = dict(isinstance=h_isinstance, isinf=h_isinf, isnan=h_isnan, str=h_str, int=h_int, repr=h_repr, literal_eval=h_literal_eval,
             b64encode=h_b64encode, b64decode=h_b64decode, complex=h_complex)
class R(ast.NodeTransformer):
    def visit_Call(self, n):
        self.generic_visit(n)
        if isinstance(n.func, ast.Name) and n.func.id in HOOKS: n.func = ast.Name("pvhook_" + n.func.id, ast.Load())
        return n
tree = R().visit(ast.parse(open(J.__file__).read())); ast.fix_missing_locations(tree)
tree.body = [n for n in tree.body if isinstance(n, (ast.FunctionDef, ast.Assign))]
ns = dict(vars(J)); ns.update({"pvhook_" + k: v for k, v in HOOKS.items()})
exec(compile(tree, "<_json_data:hooked>", "exec"), ns)
value_to_json, constant_value_from_json = ns["value_to_json"], ns["constant_value_from_json"]
# modular recursion (structural induction): elements of containers
_orig_v2j, _orig_c4j = value_to_json, constant_value_from_json
def v2j(value):
    if isinstance(value, OpaqueConst): return JsonOf(value)
    return _orig_v2j(value)
def c4j(value):
    if isinstance(value, JsonOf): return value.of                      # induction hypothesis
    return _orig_c4j(value)
ns["value_to_json"], ns["constant_value_from_json"] = v2j, c4j

def plain(j, ctx):
    """JSON plainness of a produced value (ints in range, floats finite, str keys)"""
    if isinstance(j, dict):
        assert all(isinstance(k, str) for k in j); [plain(v, ctx) for v in j.values()]
    elif isinstance(j, list): [plain(v, ctx) for v in j]
    elif isinstance(j, SymInt): ctx.prove("plain.int within +-2^53", z3.And(j.z >= -(2**53) + 1, j.z <= 2**53 - 1))
    elif isinstance(j, SymFloat): ctx.prove("plain.float finite", z3.Not(z3.Or(z3.fpIsNaN(j.z), z3.fpIsInf(j.z))))
    elif isinstance(j, (SymStr, JsonOf)) or j is None or isinstance(j, (bool, str)): pass
    elif isinstance(j, Opaque) and j.tag == "b64text": pass
    elif isinstance(j, ReprOf): pass
    elif isinstance(j, tuple) and j[0] == "strof": pass
    else: raise ObligationFailed("plain: non-JSON value %r" % (j,), None)
def same(a, b, ctx, what):
    if isinstance(a, SymInt): ctx.prove(what, _z(b) == a.z if isinstance(b, (SymInt, int)) else z3.BoolVal(False))
    elif isinstance(a, SymFloat):
        if not isinstance(b, SymFloat):
            bz = z3.FPVal(b, F64) if isinstance(b, float) else None
            if bz is None: raise ObligationFailed(what + " (type changed)", None)
            b = SymFloat(bz)
        ctx.prove(what, z3.Or(z3.And(z3.fpIsNaN(a.z), z3.fpIsNaN(b.z)), a.z == b.z))    # bit-exact, NaNs identified
    else:
        if not (a is b or (type(a) is type(b) and a == b)): raise ObligationFailed(what + " %r != %r" % (a, b), None)

cases = {
  "int": lambda: SymInt.fresh("n"), "float": lambda: SymFloat(z3.FP("x", F64)), "str": lambda: SymStr("s"),
  "bytes": lambda: Opaque("bytes"), "None": lambda: None, "True": lambda: True, "Ellipsis": lambda: ...,
  "complex": lambda: ("cx", SymFloat(z3.FP("re", F64)), SymFloat(z3.FP("im", F64))),
  "tuple3": lambda: (OpaqueConst(0), OpaqueConst(1), OpaqueConst(2)), "frozenset2": lambda: frozenset([OpaqueConst(0), OpaqueConst(1)]),
}
class Cx:
    def __init__(s, re, im): s.real, s.imag = re, im
for name, mk in cases.items():
    def h(ctx):
        v = mk()
        if name == "complex":
            v = Cx(v[1], v[2])
            old = HOOKS["isinstance"]
            ns["pvhook_isinstance"] = lambda x, t: (complex in (t if isinstance(t, tuple) else (t,))) if isinstance(x, Cx) else h_isinstance(x, t)
        j = v2j(v)
        plain(j, ctx)
        back = c4j(j)
        if name == "complex":
            assert back[0] == "complex"; same(v.real, back[1], ctx, "roundtrip.real"); same(v.imag, back[2], ctx, "roundtrip.imag")
            ns["pvhook_isinstance"] = h_isinstance
        elif name == "tuple3": assert isinstance(back, tuple) and all(x is y for x, y in zip(v, back)) and len(back) == 3
        elif name == "frozenset2": assert isinstance(back, frozenset) and back == v
        else: same(v, back, ctx, "roundtrip." + name)
    try:
        p, q, t = explore(h); print("%-10s PROVED paths=%d q=%d %.2fs" % (name, p, q, t))
    except ObligationFailed as e: print("%-10s FAILED %s %s" % (name, e.name, e.model))
    except Unsupported as e: print("%-10s UNDECIDED %s" % (name, e))
