import sys, time, z3, itertools
sys.path.insert(0, "/repo")
from symex import *
from symex import _z
import code_data._line_mapping as lm

def asm_linetable(entries):
    out = []
    for b, l in entries:
        if l is None: ld = -128
        else:
            ld = l
            while ld > 127: out.append((127, 0)); ld = ld - 127
            while ld < -127: out.append((-127, 0)); ld = ld + 127
        while b > 254:
            out.append((ld, 254)); ld = -128 if l is None else 0; b -= 254
        out.append((ld, b))
    return out
def asm_lnotab(entries):      # 3.9 flavour; symbolic l: floor-division free formulation via loops (same chunks as the C code)
    out = []
    for b, l in entries:
        if b > 255:
            n = b // 255; out += [(0, 255)] * n; b -= n * 255
        first = True
        if l > 127:
            while l > 127 * 2 - 1 + 1 - 1 and False: pass
        # C: if l<-128 or l>127: k=+127/-128, ncodes=|l| div |k|, l -= ncodes*k, emit (b,k),(0,k)*(ncodes-1); then (b or 0, l)
        if l > 127:
            n = 0; rem = l
            while rem >= 127: rem = rem - 127; n += 1      # n = l div 127, rem = l mod 127
            out.append((127, b)); b = 0; out += [(127, 0)] * (n - 1); l = rem
        elif l < -128:
            n = 0; rem = l
            while rem <= -128: rem = rem + 128; n += 1     # n = (-l) div 128
            out.append((-128, b)); b = 0; out += [(-128, 0)] * (n - 1); l = rem
        out.append((l, b))
    return out

def run(is_lt, bs, nolines, K):
    N = len(bs)
    def h(ctx):
        ent = []; sem = {}; line = 0; off = 0
        for k in range(N):
            if nolines[k]: l = None
            else:
                l = SymInt.fresh("l%d" % k); ctx.assume(z3.And(l.z >= -127 * K - 100, l.z <= 127 * K + 100))
                if k > 0 or not is_lt: ctx.assume(l.z != 0)
            ent.append((bs[k], l))
        table = (asm_linetable if is_lt else asm_lnotab)(ent)
        items = [lm.LineTableItem(line_offset=lo, bytecode_offset=bo) for lo, bo in table]
        total = sum(bs) + (0 if is_lt else 4)
        col = lm.collapse_items([lm.LineTableItem(i.line_offset, i.bytecode_offset) for i in items], is_lt)
        mp = lm.items_to_mapping(col, total, is_lt)
        # spec reading
        if is_lt:
            for b, l in ent:
                if l is not None: line = line + l
                for o in range(off, off + b, 2): sem[o] = None if l is None else line
                off += b
        else:
            marks = []
            for b, l in ent: off += b; line = line + l; marks.append((off, line))
            for o in range(0, total, 2):
                cur = 0
                for a, ln in marks:
                    if a <= o: cur = ln
                sem[o] = cur
        for o, want in sem.items():
            got = mp.offset_to_line[o]
            if want is None or got is None:
                if not (want is None and got is None): raise ObligationFailed("decode.line@%d none-mismatch" % o, ctx.solver.model() if ctx.solver.check() == z3.sat else None)
            else: ctx.prove("decode.line@%d == CPython's" % o, _z(got) == _z(want))
        back = lm.expand_items(lm.mapping_to_items(mp, is_lt), is_lt)
        if len(back) != len(items): raise ObligationFailed("reencode.length %d != %d" % (len(back), len(items)), ctx.solver.model() if ctx.solver.check() == z3.sat else None)
        for j, (x, y) in enumerate(zip(back, items)):
            ctx.prove("reencode.item%d.line" % j, _z(x.line_offset) == _z(y.line_offset)); ctx.prove("reencode.item%d.bytes" % j, _z(x.bytecode_offset) == _z(y.bytecode_offset))
    return h
K = int(sys.argv[2]); N = int(sys.argv[1]); B = [int(x) for x in sys.argv[3].split(",")]
t0 = time.time(); paths = q = 0; fails = {}
for is_lt in (False, True):
    for bs in itertools.product(B, repeat=N):
        for nol in (itertools.product([False, True], repeat=N) if is_lt else [(False,) * N]):
            if any(nol[i] and nol[i + 1] for i in range(N - 1)): continue
            try:
                p, qq, t = explore(run(is_lt, bs, nol, K)); paths += p; q += qq
            except ObligationFailed as e:
                fails.setdefault((is_lt, e.name.split("@")[0].split(".item")[0]), []).append((bs, nol, str(e.model)[:80]))
            except Unsupported as e:
                fails.setdefault((is_lt, "UNDECIDED " + str(e)[:40]), []).append((bs, nol))
print("N=%d K=%d |B|=%d: paths=%d queries=%d %.1fs" % (N, K, len(B), paths, q, time.time() - t0))
for k, v in fails.items(): print("  ", k, len(v), v[:2])
