import sys, time, z3
sys.path.insert(0, "/repo")
from symex import *
from code_data._line_mapping import (LineTableItem, CollapsedLineTableItem, collapse_items, expand_items,
    items_to_mapping, mapping_to_items, LineMapping)

def model_assemble_linetable(entries):
    """CPython 3.10 assemble_line_range per (bdelta, ldelta|None) section; bdelta>0 even."""
    out = []
    for b, l in entries:
        if l is None:
            ld = -128
        else:
            ld = l
            while ld > 127: out.append(LineTableItem(127, 0)); ld = ld - 127
            while ld < -127: out.append(LineTableItem(-127, 0)); ld = ld + 127
        while b > 254:
            out.append(LineTableItem(ld, 254)); ld = -128 if l is None else 0; b = b - 254
        out.append(LineTableItem(ld, b))
    return out

N = int(sys.argv[1]); K = int(sys.argv[2])
import itertools
fails = []
tot = [0,0,0.0]
for shape in itertools.product([False, True], repeat=N):   # which entries are no-line
    def run(ctx):
        entries = []
        for k, noline in enumerate(shape):
            b = SymInt.fresh("b%d" % k); ctx.assume(z3.And(b.z >= 2, b.z % 2 == 0, b.z <= 254 * K + 100))
            if noline: l = None
            else:
                l = SymInt.fresh("l%d" % k); ctx.assume(z3.And(l.z >= -127 * K - 100, l.z <= 127 * K + 100))
            entries.append((b, l))
        # consecutive sections must differ in line (else the assembler would have merged them)
        for k in range(1, N):
            if shape[k] and shape[k-1]: raise PathAbort()
            if not shape[k] and entries[k][1] is not None: ctx.assume(entries[k][1].z != 0)
        table = model_assemble_linetable(entries)
        col = collapse_items([LineTableItem(i.line_offset, i.bytecode_offset) for i in table], True)
        exp = expand_items(col, True)
        ok = len(exp) == len(table) and all(bool(a.line_offset == b.line_offset) and bool(a.bytecode_offset == b.bytecode_offset) for a, b in zip(exp, table))
        if not ok:
            m = ctx.solver.model() if ctx.solver.check() == z3.sat else None
            raise ObligationFailed("expand(collapse(T))==T", m)
    try:
        n, q, t = explore(run)
        tot[0]+=n; tot[1]+=q; tot[2]+=t
    except ObligationFailed as e:
        fails.append((shape, e.name, e.model))
print("paths", tot[0], "queries", tot[1], "time %.1fs" % tot[2])
for f in fails[:5]: print("FAIL", f)
