import sys, ast, z3, dis
sys.path.insert(0, "/repo")
import symex
from symex import *
from symex import _z
import code_data._blocks as bl

# partial encodings of bit operators on mathematical ints, each with a proved side condition
def _or(s, o):
    oz = _z(o)
    Ctx.cur.prove("bitor side condition: x % 256 == 0 and 0 <= y < 256 (then x|y == x+y)", z3.And(s.z % 256 == 0, oz >= 0, oz < 256))
    return SymInt(s.z + oz)
def _ror(s, o): return _or(SymInt(_z(o)), s) if not isinstance(o, SymInt) else _or(o, s)
def _lshift(s, o):
    assert isinstance(o, int) and o >= 0; return SymInt(s.z * (1 << o))
def _rshift(s, o):
    assert isinstance(o, int) and o >= 0; return SymInt(s.z / (1 << o))     # floor division, as Python's >> on ints
SymInt.__or__ = _or; SymInt.__ror__ = _ror; SymInt.__lshift__ = _lshift; SymInt.__rshift__ = _rshift

EXT = dis.EXTENDED_ARG; OP = dis.opmap["LOAD_CONST"]
def spec_unpack(bs):
    """CPython's reading (ceval.c / dis._unpack_opargs, 32-bit oparg wrap): fold EXTENDED_ARG prefixes."""
    arg = z3.IntVal(0)
    for k, b in enumerate(bs):
        arg = arg + b.z
        if k < len(bs) - 1:
            arg = arg * 256
            arg = z3.If(arg > 2**31 - 1, arg - 2**32, arg)
    return arg

# mechanical fragment extraction: the emission loop `for i in reversed(range(n_args))` inside blocks_to_bytes
tree = ast.parse(open(bl.__file__).read())
b2b = next(n for n in tree.body if isinstance(n, ast.FunctionDef) and n.name == "blocks_to_bytes")
emit_loop = next(n for n in ast.walk(b2b) if isinstance(n, ast.For) and "reversed(range(n_args))" in ast.unparse(n.iter))
frag = ast.Module(body=[ast.FunctionDef(name="emit_fragment", args=ast.arguments(posonlyargs=[], args=[ast.arg("instruction"), ast.arg("arg_value"), ast.arg("n_args"), ast.arg("bytes_")], kwonlyargs=[], kw_defaults=[], defaults=[]), body=[emit_loop], decorator_list=[])], type_ignores=[])
ast.fix_missing_locations(frag)
ns = dict(vars(bl)); exec(compile(frag, "<blocks_to_bytes:emit-loop>", "exec"), ns)
emit_fragment = ns["emit_fragment"]

for n in (1, 2, 3, 4):
    def run_parse(ctx):
        bs = [SymInt.fresh("b%d" % k) for k in range(n)]
        for b in bs: ctx.assume(z3.And(b.z >= 0, b.z <= 255))
        raw = []
        for k, b in enumerate(bs): raw += [EXT if k < n - 1 else OP, b]
        out = list(bl._parse_bytes(raw))
        assert len(out) == 1
        opcode, arg, n_args, first, nxt = out[0]
        assert (opcode, n_args, first, nxt) == (OP, n, 0, 2 * n)
        ctx.prove("_parse_bytes.post.arg_equals_cpython_oparg", _z(arg) == spec_unpack(bs))
    def run_rt(ctx):
        a = SymInt.fresh("arg"); ctx.assume(z3.And(a.z >= -2**31, a.z < 2**31))
        size = bl._instrsize(a)                                   # real function on the proxy
        if isinstance(size, SymInt): raise Unsupported("size symbolic")
        if n < size: raise PathAbort()                            # n_args (override) is never below the minimal size
        out = []
        emit_fragment(bl.Instruction("LOAD_CONST"), a, n, out)
        for k in range(n):
            ctx.prove("emit.opcode_byte", z3.BoolVal(out[2 * k] == (EXT if k < n - 1 else OP)))
            ctx.prove("emit.operand_byte_in_0..255", z3.And(_z(out[2 * k + 1]) >= 0, _z(out[2 * k + 1]) <= 255))
        parsed = list(bl._parse_bytes(out))
        assert len(parsed) == 1 and parsed[0][0] == OP and parsed[0][2] == n
        ctx.prove("roundtrip.parse(emit(op,arg,n)).arg == arg", _z(parsed[0][1]) == a.z)
    for name, h in (("_parse_bytes vs CPython oparg", run_parse), ("parse∘emit round trip", run_rt)):
        try:
            p, q, t = explore(h); print("n=%d %-32s PROVED paths=%d q=%d %.2fs" % (n, name, p, q, t))
        except ObligationFailed as e: print("n=%d %s FAILED %s %s" % (n, name, e.name, e.model))
        except Unsupported as e: print("n=%d %s UNDECIDED %s" % (n, name, e))
