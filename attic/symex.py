"""Prototype: native symbolic execution of real functions with z3-backed proxies."""
import z3, itertools, time

class Unsupported(Exception): pass
class PathAbort(Exception): pass   # infeasible path / assume(False)
class ObligationFailed(Exception):
    def __init__(self, name, model): self.name, self.model = name, model

class Ctx:
    cur = None
    def __init__(self):
        self.solver = z3.SolverFor("AUFLIA") if False else z3.Solver(); self.solver.set("timeout", 20000); self.solver.set("auto_config", False); self.solver.set("smt.mbqi", False)
        self.decisions = []   # prefix to follow
        self.pos = 0
        self.trace = []       # decisions taken this run
        self.nq = 0
        self.obligations = []  # (name, status)
    def decide(self, cond):
        """cond: z3 Bool. Return python bool, forking as needed."""
        cond = z3.simplify(cond)
        if z3.is_true(cond): return True
        if z3.is_false(cond): return False
        if self.pos < len(self.decisions):
            d = self.decisions[self.pos]; self.pos += 1
            self.trace.append(d)
            self.solver.add(cond if d else z3.Not(cond))
            return d
        # new decision point: check feasibility of both sides
        self.nq += 2
        self.solver.push(); self.solver.add(cond); t = self.solver.check(); self.solver.pop()
        self.solver.push(); self.solver.add(z3.Not(cond)); f = self.solver.check(); self.solver.pop()
        can_t, can_f = t != z3.unsat, f != z3.unsat   # unknown => explore (sound: only proofs decide)
        if can_t and can_f:
            self.pending.append(self.trace + [False])
            d = True
        elif can_t: d = True
        elif can_f: d = False
        else: raise PathAbort()
        self.pos += 1; self.decisions.append(d); self.trace.append(d)
        self.solver.add(cond if d else z3.Not(cond))
        return d
    def assume(self, cond):
        if isinstance(cond, SymBool): cond = cond.z
        elif isinstance(cond, bool): cond = z3.BoolVal(cond)
        self.solver.add(cond)
        if self.solver.check() == z3.unsat: raise PathAbort()
    def prove(self, name, cond):
        if isinstance(cond, SymBool): cond = cond.z
        elif isinstance(cond, bool): cond = z3.BoolVal(cond)
        self.nq += 1
        self.solver.push(); self.solver.add(z3.Not(cond)); r = self.solver.check()
        m = self.solver.model() if r == z3.sat else None
        self.solver.pop()
        if r == z3.sat: raise ObligationFailed(name, m)
        if r == z3.unknown: raise Unsupported("unknown proving " + name)
        self.solver.add(cond)

def explore(fn, max_paths=100000):
    """Run fn(ctx) over all feasible paths."""
    pending = [[]]; npaths = 0; nq = 0; t0 = time.time()
    while pending:
        prefix = pending.pop()
        ctx = Ctx(); ctx.decisions = list(prefix); ctx.pending = pending
        Ctx.cur = ctx
        try:
            fn(ctx)
            npaths += 1
        except PathAbort:
            pass
        nq += ctx.nq
        if npaths > max_paths: raise Unsupported("too many paths")
    return npaths, nq, time.time() - t0

def _z(x):
    if isinstance(x, SymInt): return x.z
    if isinstance(x, bool): return z3.IntVal(int(x))
    if isinstance(x, int): return z3.IntVal(x)
    raise Unsupported("int operand %r" % (x,))

class SymBool:
    def __init__(self, z): self.z = z
    def __bool__(self): return Ctx.cur.decide(self.z)
    def __and__(self, o): return SymBool(z3.And(self.z, o.z if isinstance(o, SymBool) else z3.BoolVal(bool(o))))
    def __or__(self, o): return SymBool(z3.Or(self.z, o.z if isinstance(o, SymBool) else z3.BoolVal(bool(o))))
    def __invert__(self): return SymBool(z3.Not(self.z))
    def __eq__(self, o): return SymBool(self.z == (o.z if isinstance(o, SymBool) else z3.BoolVal(bool(o))))

class SymInt:
    def __init__(self, z): self.z = z
    @staticmethod
    def fresh(name): return SymInt(z3.Int(name))
    def __add__(s, o): return SymInt(s.z + _z(o))
    __radd__ = __add__
    def __sub__(s, o): return SymInt(s.z - _z(o))
    def __rsub__(s, o): return SymInt(_z(o) - s.z)
    def __mul__(s, o): return SymInt(s.z * _z(o))
    __rmul__ = __mul__
    def __neg__(s): return SymInt(-s.z)
    def __floordiv__(s, o): 
        if isinstance(o, int) and o > 0: return SymInt(s.z / o)   # z3 Int div: floor for positive divisor
        raise Unsupported("floordiv")
    def __mod__(s, o):
        if isinstance(o, int) and o > 0: return SymInt(s.z % o)
        raise Unsupported("mod")
    def __and__(s, o):
        if isinstance(o, int) and o >= 0 and (o & (o + 1)) == 0: return SymInt(s.z % (o + 1))  # x & (2^k-1) == x mod 2^k for Python ints
        raise Unsupported("and")
    def __lt__(s, o): return SymBool(s.z < _z(o))
    def __le__(s, o): return SymBool(s.z <= _z(o))
    def __gt__(s, o): return SymBool(s.z > _z(o))
    def __ge__(s, o): return SymBool(s.z >= _z(o))
    def __eq__(s, o):
        if o is None or not isinstance(o, (int, SymInt)): return False
        return SymBool(s.z == _z(o))
    def __ne__(s, o):
        if o is None or not isinstance(o, (int, SymInt)): return True
        return SymBool(s.z != _z(o))
    def __bool__(s): return Ctx.cur.decide(s.z != 0)
    def __hash__(s): raise Unsupported("hash of SymInt")
    def __index__(s): raise Unsupported("concretization of SymInt (__index__)")
    def __int__(s): raise Unsupported("concretization of SymInt (__int__)")
    def __repr__(s): return "Sym(%s)" % s.z
