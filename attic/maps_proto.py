"""Prototype: real ToArgs.found_index / FromArgs.add on symbolic maps; abstract-view contracts + simulation step lemma."""
import sys, ast, z3
sys.path.insert(0, "/repo"); sys.path.insert(0, "/opt/veriftools/pyvenv/lib/python3.11/site-packages")
from symex import *
import code_data._blocks as bl

class SymMap:
    """dict[int,int] abstract view: dom (Array Int Bool), val (Array Int Int), size (Int)."""
    n = 0
    def __init__(self, dom, val, size): self.dom, self.val, self.size = dom, val, size
    @staticmethod
    def fresh(name):
        return SymMap(z3.Array(name + "_dom", z3.IntSort(), z3.BoolSort()), z3.Array(name + "_val", z3.IntSort(), z3.IntSort()), z3.Int(name + "_size"))
    def __contains__(self, k): return bool(SymBool(z3.Select(self.dom, _z(k))))
    def __getitem__(self, k):
        Ctx.cur.prove("dict.__getitem__: key present (no KeyError)", z3.Select(self.dom, _z(k)))
        return SymInt(z3.Select(self.val, _z(k)))
    def __setitem__(self, k, v):
        kz = _z(k)
        self.size = z3.If(z3.Select(self.dom, kz), self.size, self.size + 1)
        self.dom = z3.Store(self.dom, kz, True); self.val = z3.Store(self.val, kz, _z(v))
    def plen(self): return SymInt(self.size)
from symex import _z

class SymSeq:
    """tuple[int,...] of symbolic length; elements are Ints (ids of table values)."""
    def __init__(self, name): self.arr = z3.Array(name, z3.IntSort(), z3.IntSort()); self.length = z3.Int(name + "_len")
    def __getitem__(self, i):
        iz = _z(i)
        Ctx.cur.prove("tuple index in range (no IndexError, no negative wrap)", z3.And(iz >= 0, iz < self.length))
        return SymInt(z3.Select(self.arr, iz))
    def plen(self): return SymInt(self.length)

def plen(x):
    return x.plen() if hasattr(x, "plen") else len(x)

# mechanical rewrite: builtin len(...) -> pvhook_len(...)   (only change made to the method bodies)
src = open(bl.__file__).read(); tree = ast.parse(src)
class R(ast.NodeTransformer):
    def visit_Call(self, n):
        self.generic_visit(n)
        if isinstance(n.func, ast.Name) and n.func.id == "len": n.func = ast.Name("pvhook_len", ast.Load())
        return n
classes = [R().visit(n) for n in tree.body if isinstance(n, ast.ClassDef) and n.name in ("ToArgs", "FromArgs")]
m = ast.Module(body=classes, type_ignores=[]); ast.fix_missing_locations(m)
ns = dict(vars(bl)); ns["pvhook_len"] = plen
exec(compile(m, "<_blocks:ToArgs,FromArgs>", "exec"), ns)
ToArgs, FromArgs = ns["ToArgs"], ns["FromArgs"]

def h_found_index(ctx):
    args = SymSeq("table"); M = SymMap.fresh("M")
    ctx.assume(z3.And(M.size >= 0, args.length >= 0))
    idx = SymInt.fresh("index"); ctx.assume(z3.And(idx.z >= 0, idx.z < args.length))
    dom0, val0, size0 = M.dom, M.val, M.size
    t = ToArgs(args, M)
    value, override = t.found_index(idx)
    # contract (abstract view): rank of a new index = number of indices found before
    rank = z3.If(z3.Select(dom0, idx.z), z3.Select(val0, idx.z), size0)
    ctx.prove("found_index.post.value_is_table_entry", value.z == z3.Select(args.arr, idx.z))
    ctx.prove("found_index.post.order_is_first_use_rank", z3.Select(M.val, idx.z) == rank)
    ctx.prove("found_index.post.frame_other_keys", z3.ForAll([z3.Int("j")], z3.Implies(z3.Int("j") != idx.z, z3.And(z3.Select(M.dom, z3.Int("j")) == z3.Select(dom0, z3.Int("j")), z3.Select(M.val, z3.Int("j")) == z3.Select(val0, z3.Int("j"))))))
    if override is None: ctx.prove("found_index.post.no_override_iff_in_place", rank == idx.z)
    else: ctx.prove("found_index.post.override_only_if_out_of_place(C09)", z3.And(override.z == idx.z, rank != idx.z))

for name, h in [("ToArgs.found_index", h_found_index)]:
    try:
        n, q, t = explore(h); print(name, "PROVED paths=%d queries=%d %.2fs" % (n, q, t))
    except ObligationFailed as e:
        print(name, "FAILED", e.name, "model:", e.model)

print("---- with candidate fix applied to a scratch copy of the source text")
src2 = src.replace("self._index_to_order[index] = len(self._args)", "self._index_to_order[index] = len(self._index_to_order)")
assert src2 != src
tree2 = ast.parse(src2)
classes = [R().visit(n) for n in tree2.body if isinstance(n, ast.ClassDef) and n.name in ("ToArgs", "FromArgs")]
m = ast.Module(body=classes, type_ignores=[]); ast.fix_missing_locations(m)
ns = dict(vars(bl)); ns["pvhook_len"] = plen
exec(compile(m, "<_blocks:fixed>", "exec"), ns)
ToArgs, FromArgs = ns["ToArgs"], ns["FromArgs"]
try:
    n, q, t = explore(h_found_index); print("ToArgs.found_index PROVED paths=%d queries=%d %.2fs" % (n, q, t))
except ObligationFailed as e:
    print("FAILED", e.name, e.model)

# ---- simulation step lemma: decoder found_index(idx) -> (v, ov); encoder add(v, ov) -> j ; show j == idx and relation preserved
class KeyMap(SymMap):
    pass
def h_step(ctx):
    table = SymSeq("table"); M = SymMap.fresh("M"); I = SymMap.fresh("I"); K = SymMap.fresh("K")
    ctx.assume(z3.And(M.size >= 0, table.length >= 0))
    j = z3.Int("j"); k = z3.Int("k")
    # WF(c): table is duplicate-free under the key (hash_fn = identity on value ids here)
    ctx.assume(z3.ForAll([j, k], z3.Implies(z3.And(0 <= j, j < table.length, 0 <= k, k < table.length, j != k), z3.Select(table.arr, j) != z3.Select(table.arr, k))))
    # simulation relation R between decoder view M and encoder views (I: index->value, K: key->index)
    def Rel(M, I, K):
        return z3.And(M.size == I.size,
            z3.ForAll([j], z3.Select(I.dom, j) == z3.Select(M.dom, j)),
            z3.ForAll([j], z3.Implies(z3.Select(M.dom, j), z3.And(0 <= j, j < table.length, z3.Select(I.val, j) == z3.Select(table.arr, j)))),
            z3.ForAll([k], z3.Select(K.dom, k) == z3.Exists([j], z3.And(z3.Select(I.dom, j), z3.Select(I.val, j) == k))),
            z3.ForAll([k], z3.Implies(z3.Select(K.dom, k), z3.And(z3.Select(I.dom, z3.Select(K.val, k)), z3.Select(I.val, z3.Select(K.val, k)) == k))))
    ctx.assume(Rel(M, I, K))
    idx = SymInt.fresh("index"); ctx.assume(z3.And(idx.z >= 0, idx.z < table.length))
    t = ToArgs(table, M)
    v, ov = t.found_index(idx)
    f = FromArgs(_i_to_arg=I, _arg_to_i=K, _hash_fn=lambda x: x)
    got = f.add(v, ov)
    ctx.prove("roundtrip.step.encoder_index_equals_decoder_index", _z(got) == idx.z)
    ctx.prove("roundtrip.step.relation_preserved", Rel(M, I, K))
try:
    n, q, t = explore(h_step); print("simulation step PROVED paths=%d queries=%d %.2fs" % (n, q, t))
except ObligationFailed as e:
    print("simulation step FAILED", e.name, e.model)
except Unsupported as e:
    print("simulation step UNDECIDED", e)
