"""collapse_items merge step: run the REAL function on two symbolic entries; whenever it merges them, the merged entry must read the same as the pair
under CPython's reader (lnotab: PyCode_Addr2Line; linetable: co_lines sections)."""
import sys, z3, itertools
sys.path.insert(0, "/repo")
from symex import *
from symex import _z
import code_data._line_mapping as lm

def run(is_lt, none0, none1):
    def h(ctx):
        def mk(k, isnone):
            b = SymInt.fresh("b%d" % k); ctx.assume(z3.And(b.z >= 0, b.z <= 255))
            if is_lt: ctx.assume(b.z <= 254)
            l = SymInt.fresh("l%d" % k); ctx.assume(z3.And(l.z >= -128, l.z <= 127))
            if isnone: ctx.assume(l.z == -128)
            elif is_lt: ctx.assume(l.z != -128)
            return lm.LineTableItem(line_offset=l, bytecode_offset=b)
        a, b = mk(0, none0), mk(1, none1)
        out = lm.collapse_items([a, b], is_lt)
        if len(out) == 2: return                         # no merge: nothing to show
        m = out[0]
        if is_lt:
            # spec reading of a linetable pair: section0 = b0 bytes at line L0 (or no line), section1 = b1 bytes at L0+l1 (or no line).
            # merged: b0+b1 bytes at one line. Neutral iff every byte keeps its line.
            l0 = None if none0 else a.line_offset; l1 = None if none1 else b.line_offset
            ctx.prove("merge.bytes_total", _z(m.bytecode_offset) == _z(a.bytecode_offset) + _z(b.bytecode_offset))
            # bytes of section0 exist iff b0 > 0; of section1 iff b1 > 0
            if none0 != none1:
                ctx.prove("merge.no_line_and_lined_sections_never_merged_when_both_nonempty(C02)", z3.Or(_z(a.bytecode_offset) == 0, _z(b.bytecode_offset) == 0))
            if m.line_offset is None:
                ctx.prove("merge.result_none_only_if_all_nonempty_sections_none", z3.And(z3.Or(_z(a.bytecode_offset) == 0, z3.BoolVal(none0)), z3.Or(_z(b.bytecode_offset) == 0, z3.BoolVal(none1))))
            else:
                tot = (0 if l0 is None else _z(l0)) + (0 if l1 is None else _z(l1))
                ctx.prove("merge.line_total", _z(m.line_offset) == tot)
                # section0's bytes (if any) are shown at running line +merged; they were at +l0: need l1 == 0 or b0 == 0
                if not none0 and not none1:
                    ctx.prove("merge.section0_line_unchanged", z3.Or(_z(a.bytecode_offset) == 0, _z(b.line_offset) == 0))
        else:
            # lnotab reading: breakpoints (A+b0, L+l0), (A+b0+b1, L+l0+l1). Merged: single breakpoint (A+b0+b1, L+l0+l1).
            ctx.prove("merge.bytes_total", _z(m.bytecode_offset) == _z(a.bytecode_offset) + _z(b.bytecode_offset))
            ctx.prove("merge.line_total", _z(m.line_offset) == _z(a.line_offset) + _z(b.line_offset))
            # the dropped breakpoint must be shadowed: same address as the next (b1 == 0) or same line as before (l0 == 0)
            ctx.prove("merge.dropped_breakpoint_shadowed", z3.Or(_z(b.bytecode_offset) == 0, _z(a.line_offset) == 0))
    return h
for is_lt in (False, True):
    for n0, n1 in (itertools.product([False, True], repeat=2) if is_lt else [(False, False)]):
        try:
            p, q, t = explore(run(is_lt, n0, n1)); print("linetable=%s none=(%s,%s): PROVED paths=%d q=%d %.2fs" % (is_lt, n0, n1, p, q, t))
        except ObligationFailed as e: print("linetable=%s none=(%s,%s): FAILED %s model=%s" % (is_lt, n0, n1, e.name, e.model))
        except Unsupported as e: print("linetable=%s none=(%s,%s): UNDECIDED %s" % (is_lt, n0, n1, e))
