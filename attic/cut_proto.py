"""Prototype: cut-point rewriting of the real expand_items while-loops, ghost sums, unbounded deltas."""
import sys, ast, inspect, textwrap, z3, itertools
sys.path.insert(0, "/repo")
from symex import *
import code_data._line_mapping as lm

SRC = open(lm.__file__).read()
tree = ast.parse(SRC)
fn = next(n for n in tree.body if isinstance(n, ast.FunctionDef) and n.name == "expand_items")

class Ghost:
    """Ghost emit list: replaces the accumulator; keeps sums + per-emit obligations."""
    def __init__(self, ctx, is_lt):
        self.ctx, self.is_lt = ctx, is_lt
        self.n = 0; self.sum_b = 0; self.sum_l = 0
        self.log = []          # obligations proven
    def append(self, item):
        lo, bo = item.line_offset, item.bytecode_offset
        self.ctx.prove("emit.bytecode_offset in 0..255", (bo >= 0) & (bo <= 255) if isinstance(bo, SymInt) else (0 <= bo <= 255))
        self.ctx.prove("emit.line_offset in -128..127", (lo >= -128) & (lo <= 127) if isinstance(lo, SymInt) else (-128 <= lo <= 127))
        self.n = self.n + 1; self.sum_b = self.sum_b + bo; self.sum_l = self.sum_l + lo
    def havoc(self, tag):
        self.n = SymInt.fresh("g_n_" + tag); self.sum_b = SymInt.fresh("g_sb_" + tag); self.sum_l = SymInt.fresh("g_sl_" + tag)

class PV:
    def __init__(self, ctx): self.ctx = ctx; self.k = 0
    def havoc_int(self, name, old):
        if old is None: return None
        self.k += 1
        return SymInt.fresh("%s_h%d" % (name, self.k))
    def assert_inv(self, label, c): self.ctx.prove(label, c)
    def assume_inv(self, c): self.ctx.assume(c)
    def cut(self): raise PathAbort()

INV = {  # sidecar invariants keyed by (enclosing closure name, loop ordinal); may mention locals, ghost G and entry snapshot E
  ("expand_bytecode", 0): "sb(G.sum_b + bytecode_offset == E['sum_b'] + E['b0']) & sb(bytecode_offset >= 0)",
  ("expand_line", 0):     "True if line_offset is None else (sb(G.sum_l + line_offset == E['sum_l'] + E['l0']) & sb(G.sum_b + bytecode_offset == E['sum_b'] + E['b0']) & sb(bytecode_offset >= 0) & sb(bytecode_offset <= 255))",
  ("expand_line", 1):     "True if line_offset is None else (sb(G.sum_l + line_offset == E['sum_l'] + E['l0']) & sb(G.sum_b + bytecode_offset == E['sum_b'] + E['b0']) & sb(line_offset <= 127) & sb(bytecode_offset >= 0) & sb(bytecode_offset <= 255))",
}

class Rewriter(ast.NodeTransformer):
    def __init__(self): self.stack = []; self.count = {}
    def visit_FunctionDef(self, node):
        self.stack.append(node.name); self.count[node.name] = 0
        self.generic_visit(node); self.stack.pop(); return node
    def visit_While(self, node):
        f = self.stack[-1]; ordn = self.count[f]; self.count[f] += 1
        inv = INV[(f, ordn)]
        self.generic_visit(node)
        assigned = sorted({t.id for n in ast.walk(node) for t in (
            [n.target] if isinstance(n, ast.AugAssign) else n.targets if isinstance(n, ast.Assign) else []) if isinstance(t, ast.Name)})
        label = "%s.while%d" % (f, ordn)
        code = "__pv.assert_inv(%r, %s)\n" % (label + ".inv_on_entry", inv)
        for v in assigned: code += "%s = __pv.havoc_int(%r, %s)\n" % (v, v, v)
        code += "G.havoc(%r)\n" % label
        code += "__pv.assume_inv(%s)\n" % inv
        new = ast.parse(code).body
        iff = ast.If(test=node.test, body=node.body + ast.parse("__pv.assert_inv(%r, %s)\n__pv.cut()" % (label + ".inv_preserved", inv)).body, orelse=[])
        return new + [iff]

fn2 = Rewriter().visit(fn)
# the accumulator creation `expanded_items = cast(ExpandedItems, [])` -> ghost (stated extraction change)
for i, st in enumerate(fn2.body):
    if isinstance(st, ast.Assign) and getattr(st.targets[0], "id", "") == "expanded_items":
        fn2.body[i] = ast.parse("expanded_items = G").body[0]
ast.fix_missing_locations(fn2)
mod = ast.Module(body=[fn2], type_ignores=[])
def sb(x): return x if isinstance(x, SymBool) else SymBool(z3.BoolVal(bool(x)))

def harness(is_lt, noline):
    def run(ctx):
        ns = dict(vars(lm)); G = Ghost(ctx, is_lt); E = {}
        ns.update(G=G, E=E, sb=sb, __pv=PV(ctx))
        exec(compile(mod, "<expand_items:cut>", "exec"), ns)
        b0 = SymInt.fresh("b0"); ctx.assume(b0.z >= 0)
        l0 = None if noline else SymInt.fresh("l0")
        E.update(b0=b0, l0=0 if noline else l0, sum_b=0, sum_l=0)
        ns["expand_items"]([lm.CollapsedLineTableItem(l0, b0)], is_lt)
        ctx.prove("post.sum_bytecode", sb(G.sum_b == b0))
        if not noline: ctx.prove("post.sum_line", sb(G.sum_l == l0))
    return run

for is_lt, noline in itertools.product([False, True], [False, True]):
    if noline and not is_lt: continue
    try:
        n, q, t = explore(harness(is_lt, noline))
        print("is_linetable=%s noline=%s: PROVED paths=%d queries=%d %.2fs" % (is_lt, noline, n, q, t))
    except ObligationFailed as e:
        print("is_linetable=%s noline=%s: FAILED %s model=%s" % (is_lt, noline, e.name, e.model))
    except Unsupported as e:
        print("is_linetable=%s noline=%s: UNDECIDED %s" % (is_lt, noline, e))
