"""Prototype C13: the block-building loop of bytes_to_blocks (real text, extracted by anchor) over a symbolic-length instruction sequence."""
import sys, ast, z3
sys.path.insert(0, "/repo")
from symex import *
from symex import _z
import code_data._blocks as bl
from code_data import Instruction, Jump, NoArg

tree = ast.parse(open(bl.__file__).read())
b2b = next(n for n in tree.body if isinstance(n, ast.FunctionDef) and n.name == "bytes_to_blocks")
loop = next(n for n in b2b.body if isinstance(n, ast.For) and ast.unparse(n.iter) == "offsets_and_instruction")
assert ast.unparse(loop.target) == "(offset, instruction)"
# cut-point rewriting of the for-loop (rule 2), index ghost `pv_i`
INV = "pv.inv(pv_i, blocks, (block if pv.bound('block', locals()) else None))"
src_pre = f"""
def fragment(offsets_and_instruction, targets, blocks, pv):
    pv_i = 0
    pv.assert_inv('loop.inv_on_entry', {INV})
    pv_i = pv.havoc_index()
    blocks.havoc()
    if pv.havoc_bound('block'): block = pv.havoc_block()
    pv.assume({INV})
    if pv.in_range(pv_i):
        (offset, instruction) = offsets_and_instruction.get(pv_i)
        PV_BODY
        pv_i = pv_i + 1
        pv.assert_inv('loop.inv_preserved', {INV})
        pv.cut()
    pv.at_exit(pv_i)
    return blocks, (block if pv.bound('block', locals()) else None)
"""
frag = ast.parse(src_pre)
fdef = frag.body[0]
iff = next(n for n in fdef.body if isinstance(n, ast.If) and "in_range" in ast.unparse(n.test))
k = next(i for i, st in enumerate(iff.body) if isinstance(st, ast.Expr) and ast.unparse(st) == "PV_BODY")
class L(ast.NodeTransformer):
    def visit_Call(self, n):
        self.generic_visit(n)
        if isinstance(n.func, ast.Name) and n.func.id == "len": n.func = ast.Name("pvhook_len", ast.Load())
        return n
iff.body[k:k + 1] = [L().visit(st) for st in loop.body]          # the repository's loop body, verbatim
ast.fix_missing_locations(frag)

N = z3.Int("N"); OFF = z3.Array("OFF", z3.IntSort(), z3.IntSort()); ISJ = z3.Function("isjump", z3.IntSort(), z3.BoolSort())
TGT = z3.Function("jump_target", z3.IntSort(), z3.IntSort()); T = z3.Function("is_target", z3.IntSort(), z3.BoolSort())
RANK = z3.Function("rank", z3.IntSort(), z3.IntSort()); NT = z3.Int("n_targets"); CNT = z3.Function("cnt", z3.IntSort(), z3.IntSort())
class Seq:
    def get(self, i):
        iz = _z(i); ctx = Ctx.cur
        ctx.assume(CNT(iz + 1) == CNT(iz) + z3.If(T(z3.Select(OFF, iz)), 1, 0))       # instance of cnt's defining axiom at the generic index
        if ctx.decide(ISJ(iz)):
            ctx.assume(T(TGT(iz)))                                                    # pre: every decoded jump target was added to targets_set
            arg = Jump(SymInt(TGT(iz)), False)
        else: arg = NoArg()
        return SymInt(z3.Select(OFF, iz)), Instruction("OP", arg)
class Targets:
    def __contains__(self, x): return bool(SymBool(T(_z(x))))
    def index(self, x):
        if not Ctx.cur.decide(T(_z(x))): raise ValueError("not in list")
        Ctx.cur.assume(z3.And(RANK(_z(x)) >= 0, RANK(_z(x)) < NT))                      # contract of sorted(list).index
        return SymInt(RANK(_z(x)))
class GhostBlock:
    def __init__(self, n): self.n = n
    def append(self, x): self.n = self.n + 1
    def plen(self): return self.n
class GhostBlocks:
    """ghost view of `blocks`: count, and 'every block except possibly the current one is non-empty'"""
    def __init__(self): self.nb = 0; self.closed_nonempty = True; self.current = None
    def append(self, b):
        if self.current is not None:
            ln = plen(self.current)
            Ctx.cur.prove("blocks.append: the block being closed is non-empty (C13)", (ln >= 1).z if isinstance(ln, SymInt) else z3.BoolVal(ln >= 1))
        self.nb = self.nb + 1; self.current = b
    def havoc(self): self.nb = SymInt.fresh("nb"); self.current = "HAVOC"
def plen(x): return x.plen() if hasattr(x, "plen") else len(x)
class PV:
    def __init__(self, ctx): self.ctx = ctx; self._bound = {}
    def bound(self, name, loc): return name in loc
    def havoc_index(self): return SymInt.fresh("i")
    def havoc_bound(self, name): return self.ctx.decide(z3.Bool("bound_" + name))
    def havoc_block(self): return GhostBlock(SymInt.fresh("blen"))
    def in_range(self, i): return bool(SymBool(z3.And(_z(i) >= 0, _z(i) < N)))
    def inv(self, i, blocks, block):
        iz = _z(i); nb = _z(blocks.nb)
        if blocks.current == "HAVOC": blocks.current = block
        c = [iz >= 0, iz <= N, nb == CNT(iz), nb >= 0, z3.Implies(iz >= 1, nb >= 1)]
        if block is None: c.append(iz == 0)
        else:
            ln = plen(block); c += [iz >= 1, (ln >= 1).z if isinstance(ln, SymInt) else z3.BoolVal(ln >= 1)]
            c.append(z3.BoolVal(blocks.current is block))
        return z3.And(*c)
    def assert_inv(self, label, c): self.ctx.prove(label, c)
    def assume(self, c): self.ctx.assume(c)
    def cut(self): raise PathAbort()
    def at_exit(self, i): self.ctx.assume(_z(i) == N)

def harness(ctx):
    ns = dict(vars(bl)); ns["pvhook_len"] = plen
    exec(compile(frag, "<bytes_to_blocks:block-loop>", "exec"), ns)
    ctx.assume(z3.And(N >= 1, z3.Select(OFF, 0) == 0, T(0), CNT(0) == 0, NT >= 1))          # WF: at least one instruction; first offset 0; targets ∋ 0
    blocks, block = ns["fragment"](Seq(), Targets(), GhostBlocks(), PV(ctx))
    ctx.prove("post.number_of_blocks == number of instruction offsets that are targets", _z(blocks.nb) == CNT(N))
    ctx.prove("post.at_least_one_block", _z(blocks.nb) >= 1)
    ln = plen(block)
    ctx.prove("post.last_block_non_empty", (ln >= 1).z if isinstance(ln, SymInt) else z3.BoolVal(ln >= 1))
try:
    p, q, t = explore(harness); print("C13 block loop: PROVED paths=%d queries=%d %.2fs" % (p, q, t))
except ObligationFailed as e: print("FAILED", e.name, e.model)
except Unsupported as e: print("UNDECIDED", e)
except UnboundLocalError as e: print("real code raised UnboundLocalError on a feasible path:", e)
