import sys, z3, itertools
sys.path.insert(0, "/repo")
from symex import *
from symex import _z
import code_data._args as A
from code_data import Args

IntSeq = z3.SeqSort(z3.IntSort())
class SymTuple:
    """tuple[str,...] of symbolic length; names are opaque ids."""
    def __init__(self, s): self.s = s
    def __getitem__(self, i):
        if isinstance(i, slice):
            assert i.step is None
            n = z3.Length(self.s)
            lo = z3.IntVal(0) if i.start is None else _z(i.start); hi = n if i.stop is None else _z(i.stop)
            Ctx.cur.prove("slice bounds non-negative (Python would wrap negative bounds)", z3.And(lo >= 0, hi >= 0))
            lo2 = z3.If(lo > n, n, lo); hi2 = z3.If(hi > n, n, hi)
            return SymTuple(z3.SubSeq(self.s, lo2, z3.If(hi2 - lo2 < 0, 0, hi2 - lo2)))
        iz = _z(i)
        inb = z3.And(iz >= 0, iz < z3.Length(self.s))
        if not Ctx.cur.decide(inb): raise IndexError("tuple index out of range")
        return SymInt(self.s[iz])
    def __eq__(self, o): return SymBool(self.s == o.s)

def spec(v, argc, pos, kw, va, vk):
    """CPython layout (inspect._signature_from_function / Objects/codeobject.c): args, kwonly, *args, **kw."""
    n = z3.Length(v)
    return dict(positional_only=z3.SubSeq(v, 0, pos), positional_or_keyword=z3.SubSeq(v, pos, argc - pos),
                keyword_only=z3.SubSeq(v, argc, kw), var_positional=v[argc + kw], var_keyword=v[argc + kw + (1 if va else 0)])

for va, vk in itertools.product([False, True], repeat=2):
    def run(ctx):
        v = z3.Const("varnames", IntSeq); argc, pos, kw = z3.Ints("argcount posonlyargcount kwonlyargcount")
        ctx.assume(z3.And(0 <= pos, pos <= argc, 0 <= kw, argc + kw + (1 if va else 0) + (1 if vk else 0) <= z3.Length(v)))  # WF(c): what CPython's code constructor enforces
        flags = set(["VARARGS"] * va + ["VARKEYWORDS"] * vk + ["OPTIMIZED"])
        res = A.args_from_input(A.ArgsInput(SymInt(argc), SymInt(pos), SymInt(kw), SymTuple(v), flags))
        sp = spec(v, argc, pos, kw, va, vk)
        ctx.prove("args_from_input.post.positional_only", res.positional_only.s == sp["positional_only"])
        ctx.prove("args_from_input.post.positional_or_keyword", res.positional_or_keyword.s == sp["positional_or_keyword"])
        ctx.prove("args_from_input.post.keyword_only", res.keyword_only.s == sp["keyword_only"])
        if va: ctx.prove("args_from_input.post.var_positional", res.var_positional.z == sp["var_positional"])
        else: assert res.var_positional is None
        if vk: ctx.prove("args_from_input.post.var_keyword", res.var_keyword.z == sp["var_keyword"])
        else: assert res.var_keyword is None
        assert flags == {"OPTIMIZED"}, "frame: consumes exactly VARARGS/VARKEYWORDS"
    try:
        n, q, t = explore(run); print("VARARGS=%s VARKEYWORDS=%s PROVED paths=%d q=%d %.2fs" % (va, vk, n, q, t))
    except ObligationFailed as e:
        print("VARARGS=%s VARKEYWORDS=%s FAILED %s\n   model: %s" % (va, vk, e.name, e.model))
    except Unsupported as e:
        print("VARARGS=%s VARKEYWORDS=%s UNDECIDED %s" % (va, vk, e))
