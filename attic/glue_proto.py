"""Prototype: real _code_data.to_code_data executed modularly (callees replaced by contracts) over a symbolic flag set."""
import sys, ast, z3, types, itertools, time
sys.path.insert(0, "/repo")
from symex import *
from symex import _z
import code_data._code_data as CD
from code_data import Args, Function, CodeData

KNOWN = ["OPTIMIZED","NEWLOCALS","VARARGS","VARKEYWORDS","NESTED","GENERATOR","NOFREE","COROUTINE","ITERABLE_COROUTINE","ASYNC_GENERATOR",
         "division","absolute_import","with_statement","print_function","unicode_literals","barry_as_FLUFL","generator_stop","annotations"]
class SymFlagSet:
    """finite set over the flag-name universe; membership of each name is a z3 Bool (or a python bool once decided)"""
    def __init__(self, mem): self.mem = dict(mem)
    @staticmethod
    def fresh(prefix): return SymFlagSet({k: z3.Bool(prefix + k) for k in KNOWN})
    def _has(self, k):
        m = self.mem.get(k, False)
        if isinstance(m, bool): return m
        d = Ctx.cur.decide(m); self.mem[k] = d; return d      # decide once, then remember (path-local object)
    def __contains__(self, k): return self._has(k)
    def __isub__(self, other):
        for k in other: self.mem[k] = False
        return self
    def __ior__(self, other):
        for k in other: self.mem[k] = True
        return self
    def __and__(self, other): return SymFlagSet({k: self.mem.get(k, False) for k in other})
    __rand__ = __and__
    def __iter__(self): return iter([k for k in list(self.mem) if self._has(k)])
    def plen(self): return sum(1 for k in list(self.mem) if self._has(k))
    def __bool__(self): 
        syms = [m for m in self.mem.values() if not isinstance(m, bool)]
        if any(m is True for m in self.mem.values()): return True
        return Ctx.cur.decide(z3.Or(*syms)) if syms else False
    def pop(self):
        for k in list(self.mem):
            if self._has(k): self.mem[k] = False; return k
        raise KeyError
    def remove(self, k):
        if not self._has(k): raise KeyError(k)
        self.mem[k] = False
    def snapshot(self): return dict(self.mem)

def plen(x):
    if hasattr(x, "plen"): return x.plen()
    return len(x)
class R(ast.NodeTransformer):
    def visit_Call(self, n):
        self.generic_visit(n)
        if isinstance(n.func, ast.Name) and n.func.id == "len": n.func = ast.Name("pvhook_len", ast.Load())
        return n
tree = ast.parse(open(CD.__file__).read())
fn = R().visit(next(n for n in tree.body if isinstance(n, ast.FunctionDef) and n.name == "to_code_data")); 
m = ast.Module(body=[fn], type_ignores=[]); ast.fix_missing_locations(m)

class StrConst: pass       # an opaque constant that is a str
def make_ns(ctx, F0, log):
    ns = dict(vars(CD)); ns["pvhook_len"] = plen
    class LM:
        def modify_line_offsets(self, n): log.append(("modify_line_offsets", n))
        def pop_additional_line(self, n): return "NEXT"
    ns["to_line_mapping"] = lambda code: LM()
    ns["to_constant"] = lambda v: v
    ns["to_flags_data"] = lambda f: F0                              # contract: the set whose memberships are the word's bits
    def args_from_input(inp):                                       # contract (proved separately for the real function)
        fd = inp.flags_data
        va = "VARARGS" in fd; vk = "VARKEYWORDS" in fd
        if va: fd.remove("VARARGS")
        if vk: fd.remove("VARKEYWORDS")
        a = Args.__new__(Args); object.__setattr__(a, "_n", (inp.argcount, inp.kwonlyargcount, va, vk)); log.append(("args", a))
        return a
    ns["args_from_input"] = args_from_input
    ns["bytes_to_blocks"] = lambda *a: ("BLOCKS", "ADDL")
    captured = {}
    def CodeDataStub(**kw): captured.update(kw); return "CD"
    ns["CodeData"] = CodeDataStub
    ns["Function"] = lambda args, doc, tp: ("Function", args, doc, tp)
    return ns, captured
Args.__bool__ = lambda self: False if not hasattr(self, "_n") else bool(SymBool(z3.Or(self._n[0].z + self._n[1].z > 0, z3.BoolVal(self._n[2] or self._n[3]))))
Args.__len__ = None

results = {"returned": 0, "raised": {}}
def harness(consts_case, free_case):
    def h(ctx):
        F0 = SymFlagSet.fresh("f_"); orig = F0.snapshot(); log = []
        ns, cap = make_ns(ctx, F0, log)
        exec(compile(m, "<to_code_data:modular>", "exec"), ns)
        a, k, p = SymInt.fresh("argcount"), SymInt.fresh("kwonly"), SymInt.fresh("posonly")
        ctx.assume(z3.And(a.z >= 0, k.z >= 0, p.z >= 0, p.z <= a.z))
        s0 = StrConst()
        consts = {"empty": (), "str": (s0, 1), "nonstr": (None, s0)}[consts_case]
        code = types.SimpleNamespace(co_posonlyargcount=p, co_argcount=a, co_kwonlyargcount=k, co_varnames=("v",), co_flags="WORD",
            co_consts=consts, co_freevars=("x",) if free_case else (), co_cellvars=(), co_code=b"\x00\x00", co_names=(), co_firstlineno=SymInt.fresh("first"),
            co_stacksize=1, co_filename="f", co_name="n")
        ns["isinstance"] = lambda x, t: True if (isinstance(x, StrConst) and t is str) else isinstance(x, t)
        ns["sys"] = types.SimpleNamespace(version_info=(3, 10))
        bit = lambda name: orig[name]     # original membership (z3 Bool)
        try:
            ns["to_code_data"](code)
        except (ValueError, AssertionError, KeyError) as e:
            results["raised"][type(e).__name__] = results["raised"].get(type(e).__name__, 0) + 1
            return                         # raising is always allowed by C11 ("raises or exact")
        results["returned"] += 1
        # postconditions taken from the properties (C04 docstring/type, C11 nothing dropped, C01 header)
        tp = cap["type"]
        is_fn = z3.And(bit("NEWLOCALS"), bit("OPTIMIZED"))
        ctx.prove("to_code_data.post.type_none_iff_not_function", is_fn if tp is not None else z3.Not(z3.Or(bit("NEWLOCALS"), bit("OPTIMIZED"))))
        if tp is not None:
            _, args, doc, kind = tp
            ctx.prove("post.docstring_is_first_const_iff_str", z3.BoolVal((doc is s0) == (consts_case == "str") and (doc is None) == (consts_case != "str")))
            for kname in ("GENERATOR", "COROUTINE", "ASYNC_GENERATOR"):
                ctx.prove("post.kind_%s_iff_flag" % kname, bit(kname) == z3.BoolVal(kind == kname))
        ctx.prove("post._nested_iff_NESTED", bit("NESTED") == z3.BoolVal(bool(cap["_nested"])))
        ctx.prove("post.future_annotations_iff_flag", bit("annotations") == z3.BoolVal(bool(cap["future_annotations"])))
        ctx.prove("post.NOFREE_iff_no_free_no_cell", bit("NOFREE") == z3.BoolVal(not free_case))
        # C11: every other flag that was set must have been consumed into a field; here: no flag outside the modelled ones survives a return
        for other in ("ITERABLE_COROUTINE","division","absolute_import","with_statement","print_function","unicode_literals","barry_as_FLUFL","generator_stop"):
            ctx.prove("post.no_silent_drop_%s" % other, z3.Not(bit(other)))
        ctx.prove("post.first_line_number", _z(cap["first_line_number"]) == _z(code.co_firstlineno))
    return h
t0 = time.time(); tot = [0, 0]
for cc, fc in itertools.product(["empty", "str", "nonstr"], [False, True]):
    try:
        p, q, t = explore(harness(cc, fc)); tot[0] += p; tot[1] += q
    except ObligationFailed as e:
        print("consts=%s free=%s FAILED %s model=%s" % (cc, fc, e.name, e.model)); break
    except Unsupported as e:
        print("consts=%s free=%s UNDECIDED %s" % (cc, fc, e)); break
print("paths", tot[0], "queries", tot[1], "returned", results["returned"], "raised", results["raised"], "%.1fs" % (time.time() - t0))
