import sys, ast, z3, itertools, builtins
sys.path.insert(0, "/repo")
from symex import *
import code_data._constants as C

F64 = z3.Float64()
class SymFloat:
    py_type = float
    def __init__(self, z): self.z = z
    def __eq__(s, o): return SymBool(z3.fpEQ(s.z, o.z)) if isinstance(o, SymFloat) else False     # IEEE ==, as Python floats
    def __ne__(s, o): return ~s.__eq__(o) if isinstance(o, SymFloat) else True
    def __hash__(s): raise Unsupported("hash(SymFloat)")
class SymFloatStr:
    """result of str(float): only comparison with the literal '-0.0' is modelled (assumed: str(x)=='-0.0' iff x is negative zero)"""
    def __init__(self, f): self.f = f
    def __eq__(s, o):
        if o == "-0.0": return SymBool(z3.And(z3.fpIsZero(s.f.z), z3.fpIsNegative(s.f.z)))
        raise Unsupported("str(float) compared with %r" % (o,))
def h_isinstance(x, t):
    if isinstance(x, SymFloat): 
        ts = t if isinstance(t, tuple) else (t,)
        return any(issubclass(float, k) for k in ts)
    return isinstance(x, t)
def h_type(x): return float if isinstance(x, SymFloat) else type(x)
def h_str(x): return SymFloatStr(x) if isinstance(x, SymFloat) else str(x)
def h_isnan(x): return bool(SymBool(z3.fpIsNaN(x.z))) if isinstance(x, SymFloat) else __import__("math").isnan(x)

HOOKS = {"isinstance": "pvhook_isinstance", "type": "pvhook_type", "str": "pvhook_str", "isnan": "pvhook_isnan"}
class R(ast.NodeTransformer):
    def visit_Call(self, n):
        self.generic_visit(n)
        if isinstance(n.func, ast.Name) and n.func.id in HOOKS: n.func = ast.Name(HOOKS[n.func.id], ast.Load())
        return n
tree = R().visit(ast.parse(open(C.__file__).read())); ast.fix_missing_locations(tree)
tree.body = [n for n in tree.body if isinstance(n, ast.FunctionDef)]
ns = dict(vars(C)); ns.update(pvhook_isinstance=h_isinstance, pvhook_type=h_type, pvhook_str=h_str, pvhook_isnan=h_isnan)
exec(compile(tree, "<_constants:hooked>", "exec"), ns)
constant_key = ns["constant_key"]

def bits_equal_mod_nan(a, b):   # spec: CPython's _PyCode_ConstantKey partition for floats, with all NaNs identified
    return z3.Or(z3.And(z3.fpIsNaN(a), z3.fpIsNaN(b)), z3.And(z3.Not(z3.fpIsNaN(a)), z3.Not(z3.fpIsNaN(b)), z3.fpEQ(a, b), z3.fpIsNegative(a) == z3.fpIsNegative(b)))

def key_eq(k1, k2):
    r = (k1 == k2)
    return bool(r)
def run_float(ctx):
    a, b = SymFloat(z3.FP("a", F64)), SymFloat(z3.FP("b", F64))
    eq = key_eq(constant_key(a), constant_key(b))
    spec = bits_equal_mod_nan(a.z, b.z)
    ctx.prove("constant_key.float: key equality == type/bit-exact equality modulo NaN", spec if eq else z3.Not(spec))
def run_complex_real(ctx):
    # complex handled as (real, imag) pair of floats
    class SymComplex:
        def __init__(s, r, i): s.real, s.imag = r, i
    ar, ai, br, bi = (SymFloat(z3.FP(n, F64)) for n in ("ar", "ai", "br", "bi"))
    def isinst(x, t):
        if isinstance(x, SymComplex): return any(issubclass(complex, k) for k in (t if isinstance(t, tuple) else (t,)))
        return h_isinstance(x, t)
    ns["pvhook_isinstance"] = isinst; ns["pvhook_type"] = lambda x: complex if isinstance(x, SymComplex) else h_type(x)
    eq = key_eq(constant_key(SymComplex(ar, ai)), constant_key(SymComplex(br, bi)))
    spec = z3.And(bits_equal_mod_nan(ar.z, br.z), bits_equal_mod_nan(ai.z, bi.z))
    ctx.prove("constant_key.complex", spec if eq else z3.Not(spec))
    ns["pvhook_isinstance"] = h_isinstance; ns["pvhook_type"] = h_type
for name, h in (("float", run_float), ("complex", run_complex_real)):
    try:
        p, q, t = explore(h); print("%-8s PROVED paths=%d q=%d %.2fs" % (name, p, q, t))
    except ObligationFailed as e: print(name, "FAILED", e.name, e.model)
    except Unsupported as e: print(name, "UNDECIDED", e)
# cross-type distinctness on concrete representatives runs natively (finite case split over constructors)
reps = [None, ..., True, False, 0, 1, 0.0, -0.0, 1.0, 0j, "a", b"a", "nan", (), frozenset(), (1,), (True,), (1.0,)]
bad = [(x, y) for x, y in itertools.combinations(reps, 2) if (constant_key(x) == constant_key(y)) != (type(x) is type(y) and repr(x) == repr(y))]
print("cross-constructor distinctness violations:", bad)
