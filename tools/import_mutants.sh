#!/bin/sh
# import delivered seeded changes from /tmp/mut/out/<Cxx>/ into /verif/seeded/<Cxx>-<n>/ and run the property's check against each
cd "$(dirname "$0")/.."
for p in "$@"; do
  for n in 1 2; do
    src=/tmp/mut/out/$p
    [ -f $src/patch$n.diff ] || continue
    d=seeded/$p-$n
    [ -f $d/result.json ] && continue
    mkdir -p $d
    cp $src/patch$n.diff $d/patch.diff; cp $src/demo$n.py $d/demo.py; [ -f $d/meta.json ] || cp $src/meta$n.json $d/meta.json
    python3 tools/mutant.py $d > $d/result.json 2>&1
    python3 - "$d" <<'PY'
import json,sys
d=sys.argv[1]
try:
    r=json.load(open(d+'/result.json'))
    print(d, 'confirmed=',r.get('confirmed'), 'caught_by=',r.get('caught_by'), {k:(v['rc'],v['violations'],v['wall_s']) for k,v in r.get('checks',{}).items()}, r.get('error',''))
    for k,v in r.get('checks',{}).items():
        for f in v['first'][:2]: print('    ',f[:220])
        for f in v['errors'][:2]: print('    ',f[:220])
except Exception as e:
    print(d,'result unreadable',e); print(open(d+'/result.json').read()[-500:])
PY
  done
done
