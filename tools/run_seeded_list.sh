#!/bin/sh
# tools/run_seeded_list.sh <seeded dir>... : re-run the listed seeded changes (full and deductive-only), like run_seeded.sh
cd "$(dirname "$0")/.."
for d in "$@"; do
  [ -f $d/patch.diff ] || continue
  python3 tools/mutant.py $d > $d/result.json 2>&1
  python3 tools/mutant.py $d --no-confirm --e1-only > $d/result_e1.json 2>&1
  python3 - "$d" <<'PY'
import json,sys
d=sys.argv[1]
r=json.load(open(d+'/result.json')); e=json.load(open(d+'/result_e1.json'))
print(d, 'confirmed=',r.get('confirmed'), 'full=',r.get('caught_by'), 'deductive_only=',e.get('caught_by'))
PY
done
