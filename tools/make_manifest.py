#!/usr/bin/env python3
"""Synchronise MANIFEST.json with pcv/plan.py (levels and texts) and with the state of seeded/ and known_findings.json (notes)."""
import glob
import json
import os
import sys

VERIF = os.path.dirname(os.path.dirname(os.path.abspath(__file__)))
sys.path.insert(0, VERIF)
from pcv.plan import PLAN  # noqa: E402

m = json.load(open(os.path.join(VERIF, "MANIFEST.json")))
for c in m["checks"]:
    pl = PLAN[c["property_id"]]
    c["level_claimed"]["category"] = pl["level"]
    c["level_claimed"]["text"] = pl["explanation"]
k = json.load(open(os.path.join(VERIF, "known_findings.json")))
n_fixed = len([l for l in k["log"] if l.startswith("fixed:")])
commits = sorted(set(l.split()[2] for l in k["log"] if l.startswith("fixed:")))
open_ = [f["id"] for f in k["findings"] if f.get("status") == "open"]
n_seeded = len(glob.glob(os.path.join(VERIF, "seeded", "C*-*", "patch.diff")))
m["notes"] = ("DESIGN.md describes the engines; known_findings.json lists repaired defects (%d fix: commits in /repo, %d fixed entries) and %d open finding entries (%s); "
              "seeded/ holds %d independently written breaking changes with results." % (len(commits), n_fixed, len(open_), ", ".join(open_), n_seeded))
json.dump(m, open(os.path.join(VERIF, "MANIFEST.json"), "w"), indent=1)
print(m["notes"])
