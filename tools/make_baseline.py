#!/usr/bin/env python3
"""Record which obligations are proved on the pinned tree (/verif/baseline_obligations.json).  A failed obligation that is in this
file and cannot be replayed is still reported (with no-failing-input-found); one that is not is reported as undecided."""
import json, os, shutil, sys, tempfile
sys.path.insert(0, os.path.dirname(os.path.dirname(os.path.abspath(__file__))))
from pcv import run_e1
wd = tempfile.mkdtemp(prefix="pcv-baseline-")
try:
    e1 = run_e1.run("ALL", "quick", 0, wd)
finally:
    shutil.rmtree(wd, ignore_errors=True)
s = run_e1.summarize(e1)
out = {name: "proved" for name, o, r in s["proved"]}
print("proved", len(out), "failed", len(s["failed"]), "undecided", len(s["undecided"]), "errors", len(s["errors"]))
for n, o, r in s["failed"]: print("FAILED", n)
for u in s["undecided"]: print("UNDECIDED", u[0], str(u[1])[:200])
json.dump(out, open(os.path.join(os.path.dirname(os.path.dirname(os.path.abspath(__file__))), "baseline_obligations.json"), "w"), indent=0, sort_keys=True)
from pcv import config, rewrite
json.dump(rewrite.library_signatures(config.REPO), open(os.path.join(os.path.dirname(os.path.dirname(os.path.abspath(__file__))), "baseline_signatures.json"), "w"), indent=0, sort_keys=True)
