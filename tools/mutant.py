#!/usr/bin/env python3
"""Confirm a seeded change and run the checks against it on a scratch copy of /repo (removed afterwards).

usage: tools/mutant.py <dir with patch.diff demo.py meta.json> [--props C01,C02|all] [--tier quick] [--keep]
"""
import argparse
import json
import os
import shutil
import subprocess
import sys
import tempfile
import time

VERIF = os.path.dirname(os.path.dirname(os.path.abspath(__file__)))
PYENV = {"3.7": "3.7.16", "3.8": "3.8.18", "3.9": "3.9.18", "3.10": "3.10.13", "3.11": "3.11.7", "3.12": "3.12.1", "3.13": "3.13.0"}


def sh(cmd, **kw):
    return subprocess.run(cmd, shell=isinstance(cmd, str), capture_output=True, text=True, **kw)


def run_demo(demo, repo, ver):
    env = dict(os.environ, PYTHONDONTWRITEBYTECODE="1", PYTHONPATH=os.path.join(VERIF, "shim") + os.pathsep + repo)
    exe = "/root/.pyenv/versions/%s/bin/python" % PYENV[ver]
    p = sh([exe, demo], env=env, cwd=os.path.dirname(demo), timeout=600)
    return p.returncode, (p.stdout + p.stderr)[-400:]


def main():
    ap = argparse.ArgumentParser()
    ap.add_argument("dir")
    ap.add_argument("--props", default=None)
    ap.add_argument("--tier", default="quick")
    ap.add_argument("--no-confirm", action="store_true")
    ap.add_argument("--e1-only", action="store_true", help="run only the deductive/bounded-symbolic engines (no E3)")
    a = ap.parse_args()
    d = os.path.abspath(a.dir)
    meta = json.load(open(os.path.join(d, "meta.json")))
    prop = meta["property"]
    props = [prop] if not a.props else (["C%02d" % i for i in range(1, 17)] if a.props == "all" else a.props.split(","))
    vers = [str(v)[:4].rstrip(".") if str(v).count(".") > 1 else str(v) for v in meta.get("interpreters", ["3.10"])]
    vers = [v for v in vers if v in PYENV] or ["3.10"]
    tmp = tempfile.mkdtemp(prefix="pcv-mut-")
    out = {"dir": d, "property": prop}
    try:
        clean = os.path.join(tmp, "clean")
        mut = os.path.join(tmp, "mut")
        sh("git -C /repo worktree prune")
        shutil.copytree("/repo", clean, ignore=shutil.ignore_patterns(".git", "__pycache__"))
        shutil.copytree(clean, mut)
        p = sh(["patch", "-p1", "-d", mut, "-i", os.path.join(d, "patch.diff")])
        if p.returncode != 0:
            out["error"] = "patch does not apply: " + p.stdout[-300:] + p.stderr[-300:]
            print(json.dumps(out, indent=1))
            return 2
        if not a.no_confirm:
            t = sh("cd %s && /venv/bin/python -m pytest -q -p no:cacheprovider --timeout=900 --continue-on-collection-errors code_data/_line_mapping_test.py code_data/_flags_data_test.py 2>&1 | tail -1" % mut)
            out["baseline_tests_with_patch"] = t.stdout.strip()
            out["demo"] = {}
            for v in vers:
                rc0, o0 = run_demo(os.path.join(d, "demo.py"), clean, v)
                rc1, o1 = run_demo(os.path.join(d, "demo.py"), mut, v)
                out["demo"][v] = {"clean_rc": rc0, "patched_rc": rc1, "patched_tail": o1[-200:]}
            out["confirmed"] = "30 passed" in out["baseline_tests_with_patch"] and any(x["clean_rc"] == 0 and x["patched_rc"] != 0 for x in out["demo"].values()) \
                and all(x["clean_rc"] == 0 for x in out["demo"].values())
        out["checks"] = {}
        for pr in props:
            t0 = time.time()
            c = sh([os.path.join(VERIF, "check"), pr, "--tier", a.tier, "--repo", mut] + (["--no-e3"] if a.e1_only else []), cwd=VERIF, env=dict(os.environ, PCV_REPO=mut, PCV_EVIDENCE_DIR=os.path.join(tmp, "evidence"), PCV_REPLAY_DIR=os.path.join(tmp, "replays")))
            lines = c.stdout.splitlines()
            out["checks"][pr] = {"rc": c.returncode, "violations": len([l for l in lines if l.startswith("VIOLATION")]),
                                 "first": [l.strip()[:260] for l in lines if l.strip().startswith("violation:")][:3],
                                 "errors": [l[:200] for l in lines if l.startswith("CHECKER-ERROR")][:3], "wall_s": round(time.time() - t0, 1)}
        out["caught_by"] = [p for p, r in out["checks"].items() if r["rc"] == 1]
    finally:
        shutil.rmtree(tmp, ignore_errors=True)
    print(json.dumps(out, indent=1))
    return 0


if __name__ == "__main__":
    sys.exit(main())
