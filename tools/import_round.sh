#!/bin/sh
# tools/import_round.sh <round> <Cxx>...   : /tmp/mut/out<round>/<Cxx>/{patch,demo,meta}{1,2} -> seeded/<Cxx>-{2r-1,2r}; runs full and deductive-only checks
cd "$(dirname "$0")/.."
r=$1; shift
src_root=/tmp/mut/out$r; [ "$r" = 1 ] && src_root=/tmp/mut/out
for p in "$@"; do
  for n in 1 2; do
    src=$src_root/$p
    [ -f $src/patch$n.diff ] || continue
    d=seeded/$p-$((2*(r-1)+n))
    [ -f $d/result.json ] && continue
    mkdir -p $d
    cp $src/patch$n.diff $d/patch.diff; cp $src/demo$n.py $d/demo.py; [ -f $d/meta.json ] || cp $src/meta$n.json $d/meta.json
    python3 tools/mutant.py $d > $d/result.json 2>&1
    python3 tools/mutant.py $d --no-confirm --e1-only > $d/result_e1.json 2>&1
    python3 - "$d" <<'PY'
import json,sys
d=sys.argv[1]
try:
    r=json.load(open(d+'/result.json')); e=json.load(open(d+'/result_e1.json'))
    print(d, 'confirmed=',r.get('confirmed'), 'full=',r.get('caught_by'), 'deductive_only=',e.get('caught_by'), r.get('error',''))
    for k,v in r.get('checks',{}).items():
        for f in v['first'][:1]: print('    ',f[:200])
    for k,v in e.get('checks',{}).items():
        for f in (v['first']+v['errors'])[:1]: print('    E1:',f[:200])
except Exception as ex:
    print(d,'result unreadable',ex); print(open(d+'/result.json').read()[-400:])
PY
  done
done
