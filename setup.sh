#!/bin/sh
# Nothing is built: the framework is pure Python.  Verify the tools the checks need are present.
set -e
cd "$(dirname "$0")"
python3-vt -c "import z3, jsonschema; print('z3', z3.get_version_string())"
for v in 3.7.16 3.8.18 3.9.18 3.10.13; do
  if [ -x /root/.pyenv/versions/$v/bin/python ]; then /root/.pyenv/versions/$v/bin/python -c "import sys; print('interpreter', sys.version.split()[0])"; else echo "WARNING: interpreter $v missing (its bounded checks will be skipped and reported)"; fi
done
test -x /usr/bin/cvc5 && /usr/bin/cvc5 --version | head -1 || echo "WARNING: cvc5 missing (second back end skipped)"
mkdir -p evidence replays
