"""E3 driver: python -m rtc.run --prop C01 --tier quick --seed 0 --out out.json     (runs on the real 3.7-3.13 interpreters)"""


import argparse
import hashlib
import json
import multiprocessing
import os
import sys
import time
import traceback

from . import gen


def _checks(prop):
    from . import props
    table = {
        "C01": [("roundtrip_strict", props.c01_roundtrip)],
        "C02": [("cpython_reading", props.c02_reading)],
        "C04": [("signature_doc_kind", props.c04_signature)],
        "C09": [("overrides_justified", props.c09_overrides), ("canonical_has_no_override", props.c09_canonical)],
        "C13": [("jump_target_partition", props.c13_blocks)],
        "C14": [("iteration_complete", props.c14_iteration)],
    }
    from . import props2
    props2._load_more()
    table.update(props2.CORPUS_CHECKS)
    return table.get(prop, [])


_UNITS = []      # filled before the pool forks (code objects cannot be pickled)


def _unit_worker(args):
    prop, k = args
    uid, code, recipe = _UNITS[k]
    from . import props
    dec = props.Decoded()
    fails, n, sigs = [], 0, []
    todo = [(path, c, None) for path, c in gen.walk_code(code)]
    for ti, tw in enumerate(gen.TWINS.get(uid, [])):
        todo += [(path, c, ti) for path, c in gen.walk_code(tw)]
    for path, c, twin in todo:
        if twin is not None:
            recipe = dict(recipe, twin=twin)
        for cname, fn in _checks(prop):
            n += 1
            try:
                msgs = fn(c, dec)
            except Exception as e:  # a crash of the checker itself is reported separately, never as a violation
                fails.append({"checker_error": True, "check": cname, "unit": uid, "path": list(path),
                              "msgs": ["%s: %s" % (type(e).__name__, e), traceback.format_exc()[-800:]]})
                continue
            if msgs:
                from . import findings
                fails.append({"check": cname, "unit": uid, "path": list(path), "code_name": c.co_name, "msgs": msgs[:6], "recipe": recipe,
                              "tags": findings.input_tags(c) + findings.failure_tags(msgs)})
        sigs.append(hashlib.md5(c.co_code + repr(c.co_names).encode() + repr(len(c.co_consts)).encode()).hexdigest()[:12])
    return uid, n, fails, sigs


def run_corpus(prop, tier, seed, jobs, want=None):
    # the history check of C06 costs ~40 API round trips per code object: the thorough tier samples 150 standard-library files instead of all
    limit = 150 if (prop == "C06" and tier == "thorough") else "default"
    units = gen.corpus(tier, seed, want or ("g1", "g2", "g3", "g4"), limit)
    _UNITS[:] = [(uid, code, _recipe(uid, code, rec)) for uid, code, rec in units]
    work = [(prop, k) for k in range(len(_UNITS))]
    evals, fails, sigs, samples = 0, [], set(), []
    if jobs > 1:
        pool = multiprocessing.Pool(jobs)
        it = pool.imap_unordered(_unit_worker, work, chunksize=4)
    else:
        pool, it = None, map(_unit_worker, work)
    for uid, n, f, s in it:
        evals += n
        fails += f
        sigs.update(s)
        if len(samples) < 5:
            samples.append(uid)
    if pool:
        pool.close()
        pool.join()
    return {"evaluations": evals, "units": len(units), "distinct_code_objects": len(sigs), "failures": fails, "samples": samples}


_SOURCES = {}


def _recipe(uid, code, rec):
    r = dict(rec)
    r["unit"] = uid
    return r


def install_api_time_limits(seconds):
    """Every public API call made by a check gets a wall-clock limit: a call that does not return (an encoder loop that no longer terminates) is
    reported as that call raising TimeoutError - a concrete, replayable failure - instead of hanging the check."""
    import functools
    import signal
    from code_data import CodeData
    state = {"depth": 0, "hangs": 0}

    def limited(fn, label):
        @functools.wraps(fn)
        def wrapper(*a, **kw):
            if state["depth"]:
                return fn(*a, **kw)

            def on_alarm(signum, frame):
                state["hangs"] += 1
                raise TimeoutError("%s did not return within %d s" % (label, seconds))
            if state["hangs"] >= 3:     # keep the check bounded: this process has already shown three calls that do not return
                raise TimeoutError("%s not attempted: three earlier API calls in this process did not return within %d s" % (label, seconds))
            state["depth"] += 1
            old = signal.signal(signal.SIGALRM, on_alarm)
            signal.alarm(seconds)
            try:
                return fn(*a, **kw)
            finally:
                signal.alarm(0)
                signal.signal(signal.SIGALRM, old)
                state["depth"] -= 1
        return wrapper
    for name in ("to_code", "normalize", "to_json_data", "all_code_data"):
        if name in CodeData.__dict__:
            setattr(CodeData, name, limited(CodeData.__dict__[name], "CodeData." + name))
    for name in ("from_code", "from_json_data"):
        raw = CodeData.__dict__.get(name)
        if isinstance(raw, classmethod):
            setattr(CodeData, name, classmethod(limited(raw.__func__, "CodeData." + name)))
        elif isinstance(raw, staticmethod):
            setattr(CodeData, name, staticmethod(limited(raw.__func__, "CodeData." + name)))


def main():
    ap = argparse.ArgumentParser()
    ap.add_argument("--prop", required=True)
    ap.add_argument("--tier", default="quick")
    ap.add_argument("--seed", type=int, default=0)
    ap.add_argument("--out", required=True)
    ap.add_argument("--jobs", type=int, default=4)
    ap.add_argument("--part", default="all", help="corpus | extra | all")
    a = ap.parse_args()
    t0 = time.time()
    sys.setrecursionlimit(10000)
    install_api_time_limits(600 if a.tier == "thorough" else 120)
    if a.prop in ("C02", "C03", "C05", "C09", "C10", "C13") and hasattr(sys, "set_int_max_str_digits"):
        # the oracles of these properties are CPython's own `dis` / repr, which refuse a constant longer than the int<->str digit limit; none of the
        # library code these properties exercise converts ints to text, so the limit is lifted for the checker's process (C07/C15/C12 keep it)
        sys.set_int_max_str_digits(0)
    out = {"python": list(sys.version_info[:3]), "prop": a.prop, "tier": a.tier, "seed": a.seed, "parts": {}}
    try:
        if a.part in ("corpus", "all") and _checks(a.prop):
            want = ("g1", "g2", "g3") if (a.prop in ("C06",) and a.tier != "thorough") else None
            out["parts"]["corpus"] = run_corpus(a.prop, a.tier, a.seed, a.jobs, want)
        if a.part in ("extra", "all"):
            from . import props2
            props2._load_more()
            extra = props2.EXTRA.get(a.prop, [])
            for name, fn in extra:
                t1 = time.time()
                res = fn(a.tier, a.seed)
                res["wall_s"] = round(time.time() - t1, 2)
                out["parts"][name] = res
    except Exception as e:
        out["crash"] = "%s: %s\n%s" % (type(e).__name__, e, traceback.format_exc()[-2000:])
    if a.prop == "C07" and os.environ.get("PCV_WORKDIR"):
        try:
            from . import props5
            props5.dump_docs(os.path.join(os.environ["PCV_WORKDIR"], "c07-docs-%d.%d.jsonl" % sys.version_info[:2]))
        except Exception as e:
            out["crash"] = "cannot write documents for schema validation: %s" % e
    out["wall_s"] = round(time.time() - t0, 2)
    with open(a.out, "w") as f:
        json.dump(out, f, default=repr)


if __name__ == "__main__":
    main()
