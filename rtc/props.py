"""API-level run-time checks of the properties on a real interpreter (the bounded engine E3 and the replay host).

Every check takes concrete inputs, calls the *unmodified* library from /repo, and returns a list of failure strings.
Nothing here mentions library internals except where the property's own anchor does (private override fields).
"""


import dataclasses
import dis
import inspect
import sys
import types

from code_data import (Cellvar, CodeData, Constant, Freevar, Function, Instruction, Jump, Name, NoArg, Varname)

from . import oracle

PY38 = sys.version_info >= (3, 8)
PY310 = sys.version_info >= (3, 10)


class Decoded(object):
    """Cache of from_code per code object id within one corpus unit."""

    def __init__(self):
        self.cache = {}

    def get(self, code):
        k = id(code)
        if k not in self.cache:
            try:
                self.cache[k] = (CodeData.from_code(code), None)
            except Exception as e:  # noqa
                self.cache[k] = (None, e)
        return self.cache[k]


def decode_failure(code, err):
    """A property that speaks about the decoded data of *every* compiled code object fails where from_code raises - except for the input classes whose
    decode failure is a recorded finding of C01 (flags the data model has no field for), which every other property skips."""
    from . import findings
    if isinstance(err, ValueError) and "Unknown flags" in str(err) and any(t.startswith("flag:") for t in findings.input_tags(code)):
        return []
    return ["from_code raised %s: %s" % (type(err).__name__, str(err)[:200])]


def flat(cd):
    return [ins for block in cd.blocks for ins in block]


# ------------------------------------------------------------------ C01
def c01_roundtrip(code, dec):
    cd, err = dec.get(code)
    if err is not None:
        return ["from_code raised %s: %s" % (type(err).__name__, err)]
    try:
        back = cd.to_code()
    except Exception as e:
        return ["to_code raised %s: %s" % (type(e).__name__, e)]
    return oracle.code_diff(code, back)


# ------------------------------------------------------------------ C02 / C13
def _const_same(a, b, dec=None):
    """decoded constant a vs CPython constant b (type-exact; a nested code object must be what decoding it on its own gives)."""
    if isinstance(b, types.CodeType):
        if not (isinstance(a, CodeData) and a.name == b.co_name and a.first_line_number == b.co_firstlineno and a.filename == b.co_filename):
            return False
        if dec is not None:
            alone, err = dec.get(b)
            return err is not None or a == alone
        return True
    return oracle.const_repr(a) == oracle.const_repr(b)


def c02_reading(code, dec):
    cd, err = dec.get(code)
    if err is not None:
        return decode_failure(code, err)
    out = []
    ref = oracle.cpython_instructions(code)
    mine = flat(cd)
    if len(ref) != len(mine):
        return ["instruction count %d != dis %d" % (len(mine), len(ref))]
    # block index -> offset of its first instruction
    block_first = []
    k = 0
    for block in cd.blocks:
        block_first.append(ref[k][0] if k < len(ref) else None)
        k += len(block)
    lines = oracle.cpython_line_of_offsets(code)
    for i, (ins, (off, opname, kind, val, n)) in enumerate(zip(mine, ref)):
        where = "instr %d @%d %s" % (i, off, opname)
        if ins.name != opname:
            out.append("%s: name %s" % (where, ins.name)); continue
        a = ins.arg
        if kind in ("jabs", "jrel"):
            if not isinstance(a, Jump):
                out.append("%s: not a Jump: %r" % (where, a)); continue
            if a.relative != (kind == "jrel"):
                out.append("%s: relative=%r but CPython class is %s" % (where, a.relative, kind))
            if not (0 <= a.target < len(block_first)) or block_first[a.target] != val:
                out.append("%s: jump designates block %r (first offset %r) but CPython jumps to %r" % (
                    where, a.target, block_first[a.target] if 0 <= a.target < len(block_first) else None, val))
        elif kind == "name":
            if not (isinstance(a, Name) and a.name == val):
                out.append("%s: %r != name %r" % (where, a, val))
        elif kind == "local":
            if not (isinstance(a, Varname) and a.varname == val):
                out.append("%s: %r != local %r" % (where, a, val))
        elif kind == "cell":
            if not (isinstance(a, Cellvar) and a.cellvar == val):
                out.append("%s: %r != cell %r" % (where, a, val))
        elif kind == "free":
            if not (isinstance(a, Freevar) and a.freevar == val):
                out.append("%s: %r != free %r" % (where, a, val))
        elif kind == "const":
            if not (isinstance(a, Constant) and _const_same(a.constant, val, dec)):
                out.append("%s: %r != const %r" % (where, a, val))
        elif kind == "noarg":
            if not isinstance(a, NoArg):
                out.append("%s: %r is not NoArg" % (where, a))
        else:
            if not (type(a) is int and a == val):
                out.append("%s: %r != int %r" % (where, a, val))
        if ins.line_number != lines.get(off):
            out.append("%s: line_number %r but CPython's table gives %r" % (where, ins.line_number, lines.get(off)))
        if len(out) > 6:
            break
    return out


def c13_blocks(code, dec):
    cd, err = dec.get(code)
    if err is not None:
        return decode_failure(code, err)
    out = []
    ref = oracle.cpython_instructions(code)
    targets = {0}
    for off, opname, kind, val, n in ref:
        if kind in ("jabs", "jrel"):
            targets.add(val)
    starts = []
    k = 0
    for bi, block in enumerate(cd.blocks):
        if not block:
            out.append("block %d is empty" % bi)
            continue
        if k < len(ref):
            starts.append(ref[k][0])
        k += len(block)
    if k != len(ref):
        out.append("blocks hold %d instructions, dis reports %d" % (k, len(ref)))
    if set(starts) != targets or len(starts) != len(set(starts)):
        out.append("block starts %r != {0} + jump targets %r" % (sorted(set(starts) ^ targets)[:6], "symmetric difference shown"))
    nb = len(cd.blocks)
    jumped = set()
    for ins in flat(cd):
        if isinstance(ins.arg, Jump):
            if not (isinstance(ins.arg.target, int) and 0 <= ins.arg.target < nb):
                out.append("jump target %r designates no block (%d blocks)" % (ins.arg.target, nb))
            jumped.add(ins.arg.target)
    for bi in range(1, nb):
        if bi not in jumped:
            out.append("block %d is the target of no jump" % bi)
    return out[:6]


# ------------------------------------------------------------------ C14
def c14_iteration(code, dec):
    """only meaningful at top level: all_code_data vs recursive co_consts walk"""
    cd, err = dec.get(code)
    if err is not None:
        return decode_failure(code, err)
    out = []

    def walk(c):
        yield c
        for k in c.co_consts:
            if isinstance(k, types.CodeType):
                for x in walk(k):
                    yield x
    want = list(walk(code))
    try:
        got = list(cd.all_code_data())
    except Exception as e:
        return ["all_code_data raised %s: %s" % (type(e).__name__, e)]
    if len(got) != len(want):
        out.append("all_code_data yields %d code objects, co_consts walk finds %d (%s)" % (
            len(got), len(want), ", ".join(sorted(set(c.co_name for c in want) ^ set(g.name for g in got)))[:200]))
    if got and got[0] is not cd:
        out.append("all_code_data does not start with the object itself")
    # each equal to decoding that nested code object on its own
    direct = [c for c in code.co_consts if isinstance(c, types.CodeType)]
    try:
        mine = list(cd)
    except Exception as e:
        return out + ["iter raised %s" % e]
    if len(mine) != len(direct):
        out.append("iter yields %d nested, co_consts holds %d code objects" % (len(mine), len(direct)))
    pool = list(mine)
    for c in direct:
        d, e = dec.get(c)
        if e is not None:
            continue
        for i, m in enumerate(pool):
            if m == d:
                del pool[i]
                break
        else:
            out.append("nested %s: no yielded CodeData equals its stand-alone decoding" % c.co_name)
    return out[:6]


# ------------------------------------------------------------------ C04
_KINDS = {"POSITIONAL_ONLY": "positional_only", "POSITIONAL_OR_KEYWORD": "positional_or_keyword", "VAR_POSITIONAL": "var_positional",
          "KEYWORD_ONLY": "keyword_only", "VAR_KEYWORD": "var_keyword"}


def c04_signature(code, dec):
    cd, err = dec.get(code)
    if err is not None:
        return decode_failure(code, err)
    out = []
    fl = code.co_flags
    is_fn_like = bool(fl & inspect.CO_NEWLOCALS) and bool(fl & inspect.CO_OPTIMIZED)
    if not is_fn_like:
        if cd.type is not None:
            out.append("module/class-body code decoded with type %r" % (cd.type,))
        return out
    if not isinstance(cd.type, Function):
        return ["function-like code decoded with type %r" % (cd.type,)]
    try:
        f = types.FunctionType(code, {}, code.co_name, None, tuple(types.CellType() if hasattr(types, "CellType") else _cell() for _ in code.co_freevars))
    except Exception as e:
        return ["cannot build function for oracle: %s" % e]
    try:
        sig = inspect.signature(f)
    except Exception as e:
        return ["inspect.signature failed: %s" % e]
    want = [(("implicit0" if p.name.startswith("implicit") and code.co_varnames[:1] == (".0",) else p.name), p.kind.name) for p in sig.parameters.values()]
    args = cd.type.args
    got = [(n, k.name) for n, k in args.parameters.items()]
    got = [(("implicit0" if n == ".0" else n), ("POSITIONAL_ONLY" if n == ".0" else k)) for n, k in got]
    if got != want:
        out.append("parameters %r != inspect.signature %r" % (got, want))
    # the same through the fields
    by_field = {"positional_only": [], "positional_or_keyword": [], "keyword_only": [], "var_positional": [], "var_keyword": []}
    for n, k in want:
        by_field[_KINDS[k]].append(n)
    fields = {"positional_only": list(args.positional_only), "positional_or_keyword": list(args.positional_or_keyword), "keyword_only": list(args.keyword_only),
              "var_positional": [args.var_positional] if args.var_positional is not None else [],
              "var_keyword": [args.var_keyword] if args.var_keyword is not None else []}
    if code.co_varnames[:1] == (".0",):
        fields = {k: ["implicit0" if n == ".0" else n for n in v] for k, v in fields.items()}
        fields["positional_only"], fields["positional_or_keyword"] = fields["positional_only"] + fields["positional_or_keyword"], []
        by_field["positional_only"], by_field["positional_or_keyword"] = by_field["positional_only"] + by_field["positional_or_keyword"], []
    if fields != by_field:
        out.append("Args fields %r != kinds by inspect %r" % (fields, by_field))
    total = code.co_argcount + code.co_kwonlyargcount + bool(fl & inspect.CO_VARARGS) + bool(fl & inspect.CO_VARKEYWORDS)
    try:
        if len(args) != total:
            out.append("len(args) %d != total parameter count %d" % (len(args), total))
    except Exception as e:
        out.append("len(args) raised %s" % e)
    if cd.type.docstring != f.__doc__:
        out.append("docstring %r != __doc__ %r" % (cd.type.docstring, f.__doc__))
    kind = ("ASYNC_GENERATOR" if inspect.isasyncgenfunction(f) else "COROUTINE" if inspect.iscoroutinefunction(f)
            else "GENERATOR" if inspect.isgeneratorfunction(f) else None)
    if cd.type.type != kind:
        out.append("type %r but inspect classifies %r" % (cd.type.type, kind))
    return out


def _cell():
    x = None
    return (lambda: x).__closure__[0]


# ------------------------------------------------------------------ C09
def _first_use_ranks(code, cd):
    """Independent of the library: first-use rank of every table index, from dis."""
    is_fn = isinstance(cd.type, Function)
    nparams = code.co_argcount + code.co_kwonlyargcount + bool(code.co_flags & 4) + bool(code.co_flags & 8)
    order = {"name": {}, "local": {i: i for i in range(nparams)} if is_fn else {}, "cell": {}, "const": {}}
    if is_fn and cd.type.docstring is not None:
        order["const"][0] = 0
    ncell = len(code.co_cellvars)
    for ins in dis.get_instructions(code):
        op = ins.opcode
        if op in dis.hasname:
            t = "name"
        elif op in dis.haslocal:
            t = "local"
        elif op in dis.hasconst:
            t = "const"
        elif op in dis.hasfree and ins.arg < ncell:
            t = "cell"
        else:
            continue
        if op == dis.EXTENDED_ARG:
            continue
        order[t].setdefault(ins.arg, len(order[t]))
    return order


def c09_overrides(code, dec, deep=True):
    cd, err = dec.get(code)
    if err is not None:
        return decode_failure(code, err)
    out = []
    order = _first_use_ranks(code, cd)
    tables = {"name": code.co_names, "local": code.co_varnames, "cell": code.co_cellvars, "const": code.co_consts}
    kinds = {Name: ("name", "name"), Varname: ("local", "varname"), Cellvar: ("cell", "cellvar"), Constant: ("const", "constant")}
    # additional args: exactly the unreferenced entries
    used = {k: set(v) for k, v in order.items()}
    n_add = {k: 0 for k in tables}
    for a in cd._additional_args:
        n_add[kinds[type(a)][0]] += 1
    for t in tables:
        unref = len(tables[t]) - len(used[t])
        if n_add[t] != unref:
            out.append("%s table: %d additional args but %d entries are referenced by no instruction" % (t, n_add[t], unref))
    seen = set()
    suspects = []
    for ins in flat(cd):
        a = ins.arg
        if type(a) in kinds and a._index_override is not None:
            t = kinds[type(a)][0]
            idx = a._index_override
            if (t, idx) in seen:
                continue
            seen.add((t, idx))
            if order[t].get(idx) == idx:
                suspects.append((t, idx))
    for a in cd._additional_args:
        if a._index_override is not None:
            t = kinds[type(a)][0]
            idx = a._index_override
            # rank of an unreferenced entry: after all referenced ones, in table order
            unref = [i for i in range(len(tables[t])) if i not in order[t]]
            rank = len(order[t]) + unref.index(idx) if idx in unref else None
            if rank == idx and (t, idx) not in seen:
                seen.add((t, idx))
                suspects.append((t, idx))
    if not suspects:
        return out
    # an override at its first-use rank is justified only if removing it changes re-encoding (or makes it fail)
    try:
        base = cd.to_code()
    except Exception:
        return out
    for t, idx in suspects[: (8 if deep else 2)]:
        stripped = _strip_override(cd, t, idx)
        try:
            same = not oracle.code_diff(base, stripped.to_code())
        except Exception:
            same = False
        if same:
            out.append("%s[%d] carries a position override although it sits at its first-use rank and removing the override re-encodes to the identical code" % (t, idx))
    return out[:6]


def _strip_override(cd, t, idx):
    cls = {"name": Name, "local": Varname, "cell": Cellvar, "const": Constant}[t]

    def fix(a):
        if type(a) is cls and a._index_override == idx:
            return dataclasses.replace(a, _index_override=None)
        return a
    blocks = tuple(tuple(dataclasses.replace(i, arg=fix(i.arg)) for i in b) for b in cd.blocks)
    return dataclasses.replace(cd, blocks=blocks, _additional_args=tuple(fix(a) for a in cd._additional_args))


def c09_canonical(code, dec):
    """the same obligation on the canonically re-encoded code object (tables rebuilt in first-use order): in particular a code
    object whose tables are in first-use order with no unreferenced entries decodes without any position override"""
    cd, err = dec.get(code)
    if err is not None:
        return decode_failure(code, err)
    try:
        canon = cd.normalize().to_code()
    except Exception:
        return []      # C03/C05 report encoder failures
    d2 = Decoded()
    out = ["canonical re-encoding: " + m for m in c09_overrides(canon, d2, deep=False)]
    again, err = d2.get(canon)
    if err is None:
        order = _first_use_ranks(canon, again)
        tables = {"name": canon.co_names, "local": canon.co_varnames, "cell": canon.co_cellvars, "const": canon.co_consts}
        in_order = all(order[t].get(i) == i for t in tables for i in range(len(tables[t])))
        keys = [repr(oracle.const_repr(c)) for c in canon.co_consts]
        if in_order and len(set(keys)) == len(keys):
            bad = [i.arg for i in flat(again) if getattr(i.arg, "_index_override", None) is not None]
            if bad or again._additional_args:
                out.append("tables are in first-use order with no unreferenced entries, yet decoding gives overrides %r / additional args %r" % (bad[:2], again._additional_args[:2]))
    return out
