"""Independent oracles (CPython itself, or transcriptions of CPython validated against it).  stdlib only, 3.7+."""


import dis
import struct
import sys
import types

PY38 = sys.version_info >= (3, 8)
PY310 = sys.version_info >= (3, 10)

CODE_ATTRS = ["co_argcount", "co_kwonlyargcount", "co_nlocals", "co_stacksize", "co_flags", "co_code", "co_names", "co_varnames",
              "co_filename", "co_name", "co_firstlineno", "co_lnotab", "co_freevars", "co_cellvars"]
if PY38:
    CODE_ATTRS.insert(1, "co_posonlyargcount")
if PY310:
    CODE_ATTRS.append("co_linetable")


def const_repr(v):
    """Type- and bit-exact canonical description of a constant (all NaNs identified is NOT applied here: bits are kept,
    except that NaN payloads are reduced to 'nan' since Python offers no portable way to preserve them)."""
    if isinstance(v, float):
        return ("float", "nan" if v != v else struct.pack(">d", v).hex())
    if isinstance(v, complex):
        return ("complex", const_repr(v.real), const_repr(v.imag))
    if isinstance(v, tuple):
        return ("tuple",) + tuple(const_repr(x) for x in v)
    if isinstance(v, frozenset):
        return ("frozenset",) + tuple(sorted((const_repr(x) for x in v), key=repr))
    if isinstance(v, types.CodeType):
        return ("code", v.co_name)
    if isinstance(v, int) and not isinstance(v, bool) and abs(v) >= 1 << 200:
        return ("int", "hex:" + hex(v))      # repr() of a very long int raises on interpreters with a digit limit
    return (type(v).__name__, v)


def code_diff(a, b, path="code"):
    """List of strict differences between two code objects (every co_* attribute; constants type/bit exact; recursive)."""
    out = []
    for attr in CODE_ATTRS:
        x, y = getattr(a, attr), getattr(b, attr)
        if x != y or type(x) is not type(y):
            out.append("%s.%s: %r != %r" % (path, attr, _short(x), _short(y)))
    ca, cb = a.co_consts, b.co_consts
    if len(ca) != len(cb):
        out.append("%s.co_consts: length %d != %d" % (path, len(ca), len(cb)))
    else:
        for i, (x, y) in enumerate(zip(ca, cb)):
            if isinstance(x, types.CodeType) and isinstance(y, types.CodeType):
                out += code_diff(x, y, "%s.co_consts[%d]" % (path, i))
            elif const_repr(x) != const_repr(y):
                out.append("%s.co_consts[%d]: %r != %r" % (path, i, _short(x), _short(y)))
    return out


def _short(x):
    try:
        r = repr(x)
    except ValueError:          # a very long int under the interpreter's digit limit
        r = "<%s whose repr() is refused by the int digit limit>" % type(x).__name__
    return r if len(r) < 160 else r[:150] + "...(%d chars)" % len(r)


# ------------------------------------------------------------------ CPython's reading of a code object
def cpython_instructions(code):
    """[(offset_of_first_unit, opname, kind, value, n_units)] with EXTENDED_ARG folded, as dis reports them."""
    out = []
    first = None
    n = 0
    for ins in dis.get_instructions(code):
        if first is None:
            first = ins.offset
        n += 1
        if ins.opcode == dis.EXTENDED_ARG:
            continue
        op = ins.opcode
        if op in dis.hasjabs:
            kind, val = "jabs", ins.argval
        elif op in dis.hasjrel:
            kind, val = "jrel", ins.argval
        elif op in dis.hasname:
            kind, val = "name", ins.argval
        elif op in dis.haslocal:
            kind, val = "local", ins.argval
        elif op in dis.hasfree:
            ncell = len(code.co_cellvars)
            kind, val = ("cell", ins.argval) if ins.arg < ncell else ("free", ins.argval)
        elif op in dis.hasconst:
            kind, val = "const", code.co_consts[ins.arg]
        elif op < dis.HAVE_ARGUMENT:
            kind, val = "noarg", None
        else:
            kind, val = "int", ins.arg
        out.append((first, ins.opname, kind, val, n))
        first = None
        n = 0
    return out


def cpython_line_of_offsets(code):
    """{offset of every code unit: line or None}: what CPython's line table assigns (co_lines on 3.10+, an independent
    lnotab reader transcribed from Objects/lnotab_notes.txt / PyCode_Addr2Line before)."""
    n = len(code.co_code)
    res = {}
    if PY310:
        for start, end, line in code.co_lines():
            for o in range(start, min(end, n), 2):
                res[o] = line
        for o in range(0, n, 2):
            res.setdefault(o, None)
        return res
    tab = code.co_lnotab
    line = code.co_firstlineno
    addr = 0
    marks = [(0, line)]
    for i in range(0, len(tab), 2):
        addr += tab[i]
        d = tab[i + 1]
        if d >= 128:
            d -= 256
        line += d
        marks.append((addr, line))
    # PyCode_Addr2Line: the line of the last entry whose address <= offset
    for o in range(0, n, 2):
        cur = code.co_firstlineno
        for a, l in marks:
            if a <= o:
                cur = l
            else:
                break
        res[o] = cur
    return res


def constant_partition_key(v):
    """Reference partition of constants: CPython's own _PyCode_ConstantKey (via ctypes), with all NaNs identified."""
    import ctypes
    f = ctypes.pythonapi._PyCode_ConstantKey
    f.restype = ctypes.py_object
    f.argtypes = [ctypes.py_object]
    return _nan_free(f(v))


def _nan_free(k):
    if isinstance(k, float) and k != k:
        return "nan"
    if isinstance(k, complex) and (k.real != k.real or k.imag != k.imag):
        return ("complex-nan", _nan_free(k.real), _nan_free(k.imag), str(k.real), str(k.imag))
    if isinstance(k, tuple):
        return tuple(_nan_free(x) for x in k)
    if isinstance(k, frozenset):
        return frozenset(_nan_free(x) for x in k)
    return k
