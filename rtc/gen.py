"""Deterministic input generators for the run-time contract harness (stdlib only; runs on 3.7+).

Each generator yields (id, source, mode).  Bounds are stated in DESIGN.md section 2.5 and reported in the evidence.
"""


import ast
import itertools
import os
import random
import sys
import sysconfig

REPO = os.environ.get("PCV_REPO", "/repo")
PY38 = sys.version_info >= (3, 8)
PY310 = sys.version_info >= (3, 10)


# ---------------------------------------------------------------- G1: the repository's own example sources
def g1_repo_examples():
    test_py = os.path.join(REPO, "code_data", "_test.py")
    out = []
    try:
        tree = ast.parse(open(test_py, encoding="utf-8").read())
        ns = {"param": lambda src, id=None: (id, src), "NEWLINE": "\n"}
        for node in tree.body:
            if isinstance(node, ast.Assign) and getattr(node.targets[0], "id", "") == "EXAMPLES":
                code = compile(ast.Expression(node.value), test_py, "eval")
                for id_, src in eval(code, ns):
                    out.append(("g1:" + str(id_), src, "exec"))
    except Exception:  # the test file is not part of the verified surface; its absence only shrinks the corpus
        pass
    d = os.path.join(REPO, "code_data", "_test_minimized")
    if os.path.isdir(d):
        for fn in sorted(os.listdir(d)):
            if fn.endswith(".py"):
                try:
                    out.append(("g1:" + fn[:-3], open(os.path.join(d, fn), encoding="utf-8").read(), "exec"))
                except Exception:
                    pass
    return out


# ---------------------------------------------------------------- G2: template programs
def signature_shapes(full):
    rng = (0, 1, 2)
    for po, pk, va, ko, vk in itertools.product(rng if PY38 else (0,), rng, (0, 1), rng, (0, 1)):
        if not full and (po + pk + ko > 3):
            continue
        parts = []
        names = []
        for i in range(po):
            parts.append("p%d" % i); names.append("p%d" % i)
        if po:
            parts.append("/")
        for i in range(pk):
            parts.append("a%d" % i); names.append("a%d" % i)
        if va:
            parts.append("*rest"); names.append("rest")
        elif ko:
            parts.append("*")
        for i in range(ko):
            parts.append("k%d=None" % i); names.append("k%d" % i)
        if vk:
            parts.append("**kw"); names.append("kw")
        yield ("sig%d%d%d%d%d" % (po, pk, va, ko, vk), ", ".join(parts), names)


DOCS = [("nodoc", ""), ("doc", '"""doc string"""\n'), ("docf", 'f"""not a doc {1}"""\n'), ("docb", 'b"bytes not doc"\n'),
        ("docsur", '"lone \\ud800 surrogate"\n'), ("doclate", "x = 1\n'not first'\n")]


def indent(s, n=4):
    return "".join(" " * n + l + "\n" for l in s.splitlines())


def g2_templates(full):
    out = []
    sigs = list(signature_shapes(full))
    for sid, sig, names in sigs:
        use = " + ".join("len(repr(%s))" % n for n in names) or "0"
        for did, doc in (DOCS if full else DOCS[:2] + DOCS[4:5]):
            body = doc + "loc = %s\nreturn loc\n" % use
            out.append(("g2:def:%s:%s" % (sid, did), "def f(%s):\n%s" % (sig, indent(body)), "exec"))
        # other scope kinds with this signature (docstring plain)
        body = "loc = %s\n" % use
        out.append(("g2:gen:%s" % sid, "def f(%s):\n%s" % (sig, indent('"""d"""\n' + body + "yield loc\n")), "exec"))
        out.append(("g2:async:%s" % sid, "async def f(%s):\n%s" % (sig, indent(body + "return loc\n")), "exec"))
        out.append(("g2:asyncgen:%s" % sid, "async def f(%s):\n%s" % (sig, indent(body + "yield loc\n")), "exec"))
        lam_sig = sig.replace("=None", "=0")
        out.append(("g2:lambda:%s" % sid, "f = lambda %s: (%s)" % (lam_sig, use), "exec"))
        out.append(("g2:closure:%s" % sid,
                    "def outer(q):\n    def f(%s):\n        cellv = %s\n        def inner():\n            return cellv + q\n        return inner\n    return f\n" % (sig, use), "exec"))
        out.append(("g2:method:%s" % sid, "class C:\n    'class doc'\n    def f(self%s):\n        return %s\n" % ((", " + sig) if sig else "", use), "exec"))
    extra = [
        ("g2:listcomp", "r = [x * 2 for x in range(3) if x]\n"),
        ("g2:nestedcomp", "def f(n):\n    return {a: [b for b in range(a)] for a in range(n)}\n"),
        ("g2:genexp", "def f(n):\n    return sum(a for a in range(n))\n"),
        ("g2:setcomp", "s = {c for c in 'abc'}\n"),
        ("g2:classbody", "class A:\n    '''doc'''\n    x = 1\n    def m(self): return self.x\n"),
        ("g2:classnodoc", "class A:\n    x = 1\n"),
        ("g2:classcell", "class A:\n    def m(self):\n        return __class__\n"),
        ("g2:module_doc", "'''module doc'''\nx = 1\n"),
        ("g2:try", "try:\n    x = 1\nexcept ValueError as e:\n    y = e\nelse:\n    z = 3\nfinally:\n    w = 4\n"),
        ("g2:with", "def f(a):\n    with a as b:\n        return b\n"),
        ("g2:withfinally", "def f(a):\n    try:\n        with a as b:\n            return b\n    finally:\n        print(1)\n"),
        ("g2:while", "def f(n):\n    while n:\n        n -= 1\n        if n == 3:\n            continue\n        if n == 5:\n            break\n    else:\n        return 1\n    return n\n"),
        ("g2:for", "def f(xs):\n    t = 0\n    for x in xs:\n        t += x\n    return t\n"),
        ("g2:asyncwith", "async def f(a):\n    async with a as b:\n        await b\n    async for i in a:\n        pass\n"),
        ("g2:annotations", "from __future__ import annotations\ndef f(a: int) -> int:\n    x: int = a\n    return x\n"),
        ("g2:global_nonlocal", "def f():\n    g = 1\n    def h():\n        nonlocal g\n        global zz\n        g += 1; zz = g\n    return h\n"),
        ("g2:starargs", "def f(*a, **k):\n    return g(*a, **k)\n"),
        ("g2:kwdefaults", "def f(a, b=1, *c, d, e=2, **g):\n    '''sig doc'''\n    return a\n"),
        ("g2:chained", "def f(a, b, c):\n    return a < b < c\n"),
        ("g2:boolop", "def f(a, b, c):\n    return (a and b) or (not c and a)\n"),
        ("g2:fstring", "def f(a):\n    return f'{a!r:>10} {a}'\n"),
        ("g2:consts", "x = (1, 1.0, True, 0.0, -0.0, 'a', b'a', None, ..., 1j, (1, (2, 3)), 2**70, -2**70, 1e999, -1e999)\n"),
        ("g2:nan", "a = 1e999 - 1e999\nb = 1e999 - 1e999\nc = (1e999 - 1e999, 0.0)\n"),
        ("g2:frozenset", "def f(x):\n    return x in {1, 2.0, 'three', b'4', None, (5, 6)}\n"),
        ("g2:deadinner", "def fn():\n    return\n    def i():\n        i()\n"),
        ("g2:deadinner2", "def fn():\n    return 1\n    class K:\n        def m(self): pass\n    x = lambda: 2\n"),
        ("g2:whiletrue", "def f():\n    while True:\n        def g(): pass\n        return g\n"),
        ("g2:ifzero", "if 0:\n    def dead(): pass\nx = 1\n"),
        ("g2:surrogate_names", "x = '\\ud800'\ny = ('\\udfff', b'\\xff')\n"),
        ("g2:unicode_ident", "def f(\u00e9):\n    return \u00e9\n"),
        ("g2:manylocals", "def f():\n" + "".join("    v%d = %d\n" % (i, i) for i in range(40)) + "    return v0\n"),
        ("g2:decorators", "@d1\n@d2(3)\ndef f(): pass\n@d1\nclass C: pass\n"),
        ("g2:import", "import a.b as c\nfrom d import e, f as g\nfrom . import h\n"),
        ("g2:lambda_nested", "f = lambda x: lambda y: x + y\n"),
        ("g2:dead_closure_unused_cell", "def outer(y):\n    def f(x):\n        if 0:\n            def g():\n                return x\n        return y\n    return f\n"),
        ("g2:dead_closure_after_return", "def outer(y):\n    def f():\n        return y\n        x = 2\n        def g():\n            return x\n    return f\n"),
        ("g2:complex_edge", "x = (1e999j, -(0.0-2j), (1-0j), 1+0j, -(-1+0j), (1e999-1e999)*1j, -1j, 2.5-0j)\n"),
        ("g2:except_oneliner", "def f(t):\n    try:\n        g()\n    except OSError: pass\n    while t:\n        if t: break\n"),
        ("g2:class_twice", "class A: pass\nclass A: pass\n"),
        ("g2:equal_lambdas_under_two_parents", "a = lambda: (lambda: 0); b = lambda x: (lambda: 0)\n"),
        ("g2:finally_two_lambdas", "def f(a):\n    try:\n        if a: return 1\n    finally:\n        g = lambda: 1; h = lambda: 2\n    return g, h\n"),
        ("g2:while_two_lambdas", "def f(a):\n    while (lambda: a)() and (lambda: 1)():\n        a -= 1\n    return a\n"),
        ("g2:finally_lambda", "def f(a):\n    try:\n        return a\n    finally:\n        g = lambda: 1\n"),
        ("g2:finally_genexp", "def f(a):\n    try:\n        if a: return 1\n    finally:\n        s = sum(i for i in a)\n    return s\n"),
        ("g2:surrogate_unicode_version", "x = '\\ud800\\U0001fae0'\ny = ('\\udfff\\U0001f9ff', '\\U0001fae0')\n"),
        ("g2:module_dead_lambda", "TRACE = 0 and (lambda frame: frame)\nclass K:\n    T = 0 and (lambda: 1)\n"),
        ("g2:same_line_lambdas", "fs = (lambda x: x - 1, lambda x: x + 1, lambda x: x * 2)\nprint([f(3) for f in fs])\n"),
        ("g2:same_line_comps", "r = [a for a in range(2)] + [a * 2 for a in range(2)]\ns = {k: 1 for k in 'ab'}, {k: 2 for k in 'ab'}\n"),
        ("g2:same_line_defs", "if a: f = lambda: 1\nelse: f = lambda: 2\nclass A: x = lambda self: 1; y = lambda self: 2\n"),
        ("g2:yieldfrom", "def f(a):\n    r = yield from a\n    return r\n"),
        ("g2:assert", "def f(a):\n    assert a, 'msg'\n    return a\n"),
        ("g2:delete", "def f(a):\n    b = a\n    del b\n    del a.x, a[0]\n"),
        ("g2:slices", "def f(a):\n    return a[1:2], a[::2], a[1:2:3], a[...]\n"),
        ("g2:unpack", "def f(a):\n    b, *c, d = a\n    return [*c, b], {**d}\n"),
    ]
    if PY38:
        extra += [("g2:walrus", "def f(a):\n    if (n := len(a)) > 1:\n        return n\n"),
                  ("g2:posonly_lambda", "f = lambda a, /, b: a + b\n")]
    if PY310:
        extra += [("g2:match", "def f(x):\n    match x:\n        case [a, b]:\n            return a\n        case {'k': v}:\n            return v\n        case _:\n            return None\n")]
    out += [(i, s, "exec") for i, s in extra]
    out += [("g2:eval:arith", "a + b * 2", "eval"), ("g2:eval:lambda", "lambda x: x", "eval"), ("g2:eval:cond", "a if b else c", "eval"),
            ("g2:single:expr", "a + 1\n", "single"), ("g2:single:def", "def f(): pass\n", "single"), ("g2:single:assign", "x = 1\n", "single")]
    return out


# ---------------------------------------------------------------- G3: boundary sources
def g3_boundaries(full):
    out = []
    gaps = [126, 127, 128, 129, 254, 255, 256, 257, 300] + ([1000, 381, 382] if full else [])
    for g in gaps:
        out.append(("g3:linegap+%d" % g, "x = 1" + "\n" * g + "y = 2\n", "exec"))
        out.append(("g3:linegap-%d" % g, "f(" + "\n" * g + "1)\n", "exec"))
        out.append(("g3:fnlinegap+%d" % g, "def f():\n    x = 1" + "\n" * g + "    y = 2\n    return x\n", "exec"))
    # byte gaps: one-line expressions (each `-x` is 2 code units after the first load)
    for n in ([60, 62, 63, 64, 65, 125, 126, 127, 128, 129, 130] + ([190, 191, 192, 253, 254, 255, 256] if full else [])):
        out.append(("g3:bytegap%d" % n, "y = " + "-" * n + "x\nz = y\n", "exec"))
        out.append(("g3:bytegap_lines%d" % n, "y = " + "-" * n + "x" + "\n" * 300 + "z = y\n", "exec"))
        out.append(("g3:bytegap_back%d" % n, "y = f(\n" + "-" * n + "x)\nz = y\n", "exec"))
    # many constants / names across the 1/2-byte operand boundary
    for n in ([255, 256, 257] + ([65535, 65536, 65537] if full else [])):
        out.append(("g3:consts%d" % n, "x = [" + ", ".join(str(i + 1000) for i in range(n)) + ", 'tail']\ny = 'tail'\n", "exec"))
        if n < 1000:
            out.append(("g3:names%d" % n, "\n".join("n%d = n%d" % (i, i + 1) for i in range(n)) + "\n", "exec"))
            out.append(("g3:locals%d" % n, "def f():\n" + "".join("    v%d = 1\n" % i for i in range(n)) + "    return v%d\n" % (n - 1), "exec"))
    # jumps across > 255 code units, both directions
    for n in ([120, 126, 127, 128, 129, 130, 140] + ([300, 33000] if full else [])):
        pad = "\n".join("    x = x + %d" % i for i in range(n // 2))
        out.append(("g3:jumps%d" % n, "def f(x):\n  while x:\n    if x == 1:\n      break\n" + pad.replace("    ", "      ") + "\n    x -= 1\n  return x\n", "exec"))
        out.append(("g3:fwdjump%d" % n, "if a:\n" + pad + "\nelse:\n    y = 1\nz = 2\n", "exec"))
    # 3.10 no-line runs: finally / with / try bodies get artificial instructions
    big = " + ".join(["a"] * 140)
    out += [
        ("g3:finally_big", "def f(a):\n    try:\n        return a\n    finally:\n        b = %s\n" % big, "exec"),
        ("g3:with_big", "def f(a):\n    with a:\n        b = %s\n        return b\n" % big, "exec"),
        ("g3:try_big", "def f(a):\n    try:\n        b = %s\n    except Exception:\n        raise\n    return b\n" % big, "exec"),
        ("g3:for_else_big", "def f(a):\n    for i in a:\n        b = %s\n    else:\n        return 1\n" % big, "exec"),
        ("g3:extarg_last", "x = 0\n" + "\n".join("n%d = 1" % i for i in range(300)) + "\nlast_name_%s\n" % "z", "exec"),
        ("g3:manycells", "def f():\n" + "".join("    c%d = 1\n" % i for i in range(260)) + "    def g():\n        return " + " + ".join("c%d" % i for i in range(260)) + "\n    return g\n", "exec"),
        ("g3:manyfrees_jump", "def f():\n" + "".join("    c%d = 1\n" % i for i in range(260)) +
         "    def g(x):\n        while x:\n            x = x + " + " + ".join("c%d" % i for i in range(260)) + "\n        return x\n    return g\n", "exec"),
        ("g3:name_both_cell_and_free", "class A:\n    def f(self):\n        class B:\n            x = __class__\n            def g(self):\n                return __class__, x\n        return B\n"
         "    def h(self):\n        class C(A):\n            y = __class__\n            def m(self):\n                return super().h, y\n        return C\n", "exec"),
        ("g3:dead_multiline_tuple_after_return", "def f():\n    return 0\n    x = (a,\n" + "\n" * 121 + "         (\n" + "\n" * 4 + "          c,)\n        )\n"
         "def g():\n    return 0\n    y = (a,\n" + "\n" * 126 + "         (b,\n          (\n" + "\n" * 126 + "          c,)))\n", "exec"),
        ("g3:int_beyond_the_decimal_conversion_limit", "x = 0x" + "f" * 5000 + "\ny = (-0x" + "f" * 4000 + ", 1, 'a')\ndef f():\n    return 0x1" + "0" * 6000 + "\n", "exec"),
        ("g3:sibling_code_with_colliding_hashes", "fs = [lambda: -1, lambda: -2]\ngs = [(lambda: (-1, 'x')), (lambda: (-2, 'x'))]\ndef f():\n    return [lambda: -1, lambda: -2]\n", "exec"),
        ("g3:surrogate_strings_with_quotes", "a = '\\'\\ud800'\nb = '\\ud800\\''\nc = '\"\\ud800\"'\nd = '\\udc80\\\\'\ne = (\"''\\udc80''\", 1)\ndef f(x='\\'\\ud800\\''):\n    '\\'doc \\ud800\\''\n    return x\n", "exec"),
        ("g3:merged_code_consts", "def ratio(xs, ys):\n    return sum(x*x for x in xs) / sum(x*x for x in ys)\nf = (lambda: 1), (lambda: 1)\ng = [i for i in a], [i for i in a]\n", "exec"),
        ("g3:dead_nested_after_return", "def live():\n    return 1\n    def dead():\n        return 2\n    class Dead:\n        pass\n", "exec"),
        ("g3:barry", "from __future__ import barry_as_FLUFL\nx = 1\ndef f(): return x\n", "exec"),
        ("g3:future_all", "from __future__ import division, absolute_import, with_statement, print_function, unicode_literals, generator_stop, annotations\ndef f(): pass\n", "exec"),
    ]
    return out


# ---------------------------------------------------------------- G4: standard library files
def g4_stdlib_files(limit, seed):
    root = sysconfig.get_paths()["stdlib"]
    files = []
    for dp, dn, fns in os.walk(root):
        dn[:] = sorted(d for d in dn if d not in ("site-packages", "__pycache__", "lib2to3/tests/data"))
        for fn in sorted(fns):
            if fn.endswith(".py"):
                files.append(os.path.join(dp, fn))
    if limit is not None and limit < len(files):
        rnd = random.Random(seed)
        files = sorted(rnd.sample(files, limit))
    return files




def _future_annotations_flag():
    import __future__
    return __future__.annotations.compiler_flag


TWINS = {}


def hash_str(s):
    import zlib
    return zlib.crc32(s.encode())


def compile_all(items, optimize_levels=(0,), flag_sets=(0,)):
    """[(id, code, recipe)] for everything that compiles on this interpreter.  Compiler flags are explicit (dont_inherit)."""
    import warnings
    out = []
    with warnings.catch_warnings():
        warnings.simplefilter("ignore")
        for id_, src, mode in items:
            for opt in optimize_levels:
              for fl in flag_sets:
                try:
                    out.append(("%s:O%d%s" % (id_, opt, ":F%x" % fl if fl else ""), compile(src, "<%s>" % id_, mode, flags=fl, dont_inherit=True, optimize=opt), {"source_id": id_, "mode": mode, "optimize": opt, "flags": fl}))
                except (SyntaxError, ValueError, RecursionError, MemoryError, OverflowError):
                    continue
    return out


def twin_sources(src):
    """Variants of a source whose nested code objects compare *equal* to the original's under CPython's code equality (which ignores
    the file name and the line table) although they differ: (same text, other file name) and (a blank line inserted after the first
    def/class header, so the nested code keeps its first line but not its line table)."""
    import re
    lines = src.split("\n")
    for i, l in enumerate(lines[:-1]):
        if re.match(r"^\s*(async\s+def|def|class)\b.*:\s*$", l) and lines[i + 1].strip():
            return "\n".join(lines[:i + 1] + [""] + lines[i + 1:])
    return None


TLA_ITEMS = [("g3:toplevel_await", "import asyncio\nx = await asyncio.sleep(0)\n", "exec"), ("g3:toplevel_async_with", "async with a as b:\n    pass\n", "exec"),
             ("g3:toplevel_async_for", "async for i in a:\n    print(i)\n", "exec"), ("g3:toplevel_await_unused", "x = 1\ndef f(): return x\n", "exec"),
             ("g3:toplevel_await_eval", "await x", "eval"), ("g3:toplevel_await_single", "await x", "single")]
FILENAME_SRC = "def f(a):\n    \"doc\"\n    return [a for _ in a]\nclass C:\n    x = lambda: 1\n"
FILENAMES = ["<unknown>", "<string>", "<stdin>", "", "a b.py", "<module>", "f", b"caf\xe9.py", "caf\u00e9 \u4e16.py"]


def walk_code(code, path=()):
    """Yield (path, code) for a code object and everything nested in its constants."""
    yield path, code
    for i, c in enumerate(code.co_consts):
        if hasattr(c, "co_code"):
            for x in walk_code(c, path + (i,)):
                yield x


def corpus(tier, seed, want=("g1", "g2", "g3", "g4"), g4_limit="default"):
    """Top-level compiled units [(id, code, recipe)]."""
    full = tier == "thorough"
    items = []
    if "g1" in want:
        items += g1_repo_examples()
    if "g2" in want:
        items += g2_templates(full)
    if "g3" in want:
        items += g3_boundaries(full)
    units = compile_all(items, optimize_levels=(0, 1, 2) if full else (0,))
    if not full:   # optimisation levels on a subset in the quick tier
        units += compile_all([it for it in items if it[0].startswith(("g2:def:sig010", "g2:assert", "g2:classbody", "g2:module_doc", "g1:fn"))], optimize_levels=(1, 2))
    # twins: decoded in the same worker process right after their original (a history-dependent decoder shows up here)
    import warnings as _w
    twins = {}
    with _w.catch_warnings():
        _w.simplefilter("ignore")
        for id_, src, mode in items:
            if len(src) > 6000 or mode != "exec" or not id_.startswith(("g1:", "g2:")):
                continue
            if not full and id_.startswith("g2:") and (hash_str(id_) % 3):
                continue
            tw = []
            try:
                tw.append(compile(src, "<other-file:%s>" % id_, mode, dont_inherit=True, optimize=0))
                t2 = twin_sources(src)
                if t2:
                    tw.append(compile(t2, "<%s>" % id_, mode, dont_inherit=True, optimize=0))
            except (SyntaxError, ValueError, RecursionError, MemoryError, OverflowError):
                pass
            if tw:
                twins["%s:O0" % id_] = tw
    units = [(u, c, dict(r, twins=len(twins.get(u, []))) if u in twins else r) for (u, c, r) in units]
    TWINS.clear()
    TWINS.update(twins)
    if "g1" in want:   # the same sources compiled with `from __future__ import annotations` in effect (a compile() flag)
        g1 = [it for it in items if it[0].startswith("g1:")]
        units += compile_all(g1 if full else g1[::3], flag_sets=(_future_annotations_flag(),))
    if "g3" in want and sys.version_info >= (3, 8):   # top-level await (compile() flag since 3.8; what `python -m asyncio` uses)
        tla = TLA_ITEMS
        units += compile_all(tla, flag_sets=(0x2000,))
    if "g3" in want:      # file names that tools use as placeholders, and odd ones
        src = FILENAME_SRC
        for i, fname in enumerate(FILENAMES):
            try:
                units.append(("g3:filename%d" % i, compile(src, fname, "exec", dont_inherit=True), {"source_id": "g3:filename%d" % i, "mode": "exec", "optimize": 0, "flags": 0, "filename": fname}))
            except (SyntaxError, ValueError):
                pass
    if "g4" in want:
        import warnings
        for fn in g4_stdlib_files((None if full else 24) if g4_limit == "default" else g4_limit, seed):
            try:
                with open(fn, "rb") as f:
                    src = f.read()
                with warnings.catch_warnings():
                    warnings.simplefilter("ignore")
                    units.append(("g4:" + os.path.relpath(fn, sysconfig.get_paths()["stdlib"]), compile(src, fn, "exec", dont_inherit=True), {"file": fn, "mode": "exec", "optimize": -1}))
            except (SyntaxError, ValueError, RecursionError, MemoryError, OverflowError):
                continue
    return units
