"""E3 parts: C07 JSON form, C05 normalization preserves meaning, C06 canonical form, C15 portability worker."""
import contextlib
import dataclasses
import dis
import inspect
import io
import itertools
import json
import math
import os
import random
import sys
import types

from code_data import (AdditionalLine, Args, Cellvar, CodeData, Constant, Freevar, Function, Instruction, Jump, Name, NoArg, Varname)

from .props import decode_failure  # noqa: E402
from . import gen, oracle
from .props import Decoded, flat
from .props2 import CORPUS_CHECKS, PY38, PY310, code_replace, fail, part, replayer, result
from .props3 import c08_values
from .props4 import mk, I

MAXI = 2 ** 53 - 1


# =========================================================================================== C07
def plain_problems(j, path="$"):
    out = []
    if isinstance(j, dict):
        for k, v in j.items():
            if not isinstance(k, str):
                out.append("%s: non-string key %r" % (path, k))
            out += plain_problems(v, "%s.%s" % (path, k))
    elif isinstance(j, list):
        for i, v in enumerate(j):
            out += plain_problems(v, "%s[%d]" % (path, i))
    elif isinstance(j, bool) or j is None or isinstance(j, str):
        if isinstance(j, str):
            try:
                j.encode("utf-8")
            except UnicodeEncodeError:
                out.append("%s: string is not valid Unicode text (lone surrogate)" % path)
    elif isinstance(j, int):
        if not (-MAXI <= j <= MAXI):
            out.append("%s: integer %s beyond +-2^53" % (path, j if abs(j) < 1 << 200 else hex(j)[:40] + "..."))
    elif isinstance(j, float):
        if math.isnan(j) or math.isinf(j):
            out.append("%s: non-finite float %r" % (path, j))
    else:
        out.append("%s: %s is not a JSON type" % (path, type(j).__name__))
    return out[:4]


_DOCS = []


def _reversed_members(j):
    if isinstance(j, dict):
        return {k: _reversed_members(j[k]) for k in reversed(list(j))}
    if isinstance(j, list):
        return [_reversed_members(v) for v in j]
    return j


def _json_cycle(x, label, keep_doc=True):
    msgs = []
    try:
        j = x.to_json_data()
    except Exception as e:
        return ["%s: to_json_data raised %s: %s" % (label, type(e).__name__, e)]
    msgs += ["%s: %s" % (label, m) for m in plain_problems(j)]
    try:
        s = json.dumps(j, allow_nan=False)
    except Exception as e:
        return msgs + ["%s: json.dumps(allow_nan=False) raised %s: %s" % (label, type(e).__name__, e)]
    if keep_doc and len(_DOCS) < 4000:
        _DOCS.append(s)
    try:
        y = CodeData.from_json_data(json.loads(s))
    except Exception as e:
        return msgs + ["%s: from_json_data raised %s: %s" % (label, type(e).__name__, str(e)[:200])]
    if not (y == x):
        msgs.append("%s: from_json_data(parse(serialize(to_json_data(x)))) != x" % label)
    # a JSON object is an unordered collection: serializers that sort the members (sort_keys, canonical JSON) or emit them in any other order are real cycles too
    for how, text in (("sorted keys", json.dumps(j, allow_nan=False, sort_keys=True)), ("reversed member order", json.dumps(_reversed_members(j), allow_nan=False))):
        try:
            z = CodeData.from_json_data(json.loads(text))
            if not (z == x):
                msgs.append("%s: a serialize/parse cycle with %s does not give back x" % (label, how))
        except Exception as e:
            msgs.append("%s: from_json_data raised %s after a serialize/parse cycle with %s: %s" % (label, type(e).__name__, how, str(e)[:160]))
    try:
        hash(y)
    except TypeError as e:
        msgs.append("%s: loaded data is not hashable: %s" % (label, e))
    try:
        cx = x.to_code()
    except Exception:
        return msgs      # encoder problems belong to C03
    try:
        d = oracle.code_diff(cx, y.to_code())
        if d:
            msgs.append("%s: to_code() of the loaded data differs: %s" % (label, d[0]))
    except Exception as e:
        msgs.append("%s: to_code() of the loaded data raised %s: %s" % (label, type(e).__name__, e))
    return msgs


def c07_json(code, dec):
    cd, err = dec.get(code)
    if err is not None:
        return decode_failure(code, err)
    return _json_cycle(cd, "decoded") + _json_cycle(cd.normalize(), "normalized")


CORPUS_CHECKS["C07"] = [("json_strict_roundtrip", c07_json)]


def _has_surrogate(v):
    if isinstance(v, str):
        try:
            v.encode("utf-8")
            return False
        except UnicodeEncodeError:
            return True
    if isinstance(v, (tuple, frozenset)):
        return any(_has_surrogate(x) for x in v)
    return False


def c07_positions():
    """(label, CodeData, tags) with edge values at every position a value can occur"""
    out = []
    vals = c08_values()
    for i, v in enumerate(vals):
        body = [I("LOAD_CONST", Constant(v), line_number=1), I("RETURN_VALUE", line_number=1)]
        out.append(("operand:%d:%r" % (i, v), mk([body]), ["constant-operand"]))
        out.append(("additional:%d:%r" % (i, v), mk([[I("LOAD_CONST", Constant(None), line_number=1), I("RETURN_VALUE", line_number=1)]], _additional_args=(Constant(v, 1),)), ["constant-additional"]))
    huge = int("f" * 5000, 16)
    for lab, v in (("huge", huge), ("-huge", -huge), ("(huge,)", (huge, 1)), ("frozenset(huge)", frozenset([huge, -huge])), ("nested", ((huge,), "a"))):
        body = [I("LOAD_CONST", Constant(v), line_number=1), I("RETURN_VALUE", line_number=1)]
        out.append(("operand:int beyond the decimal conversion limit:%s" % lab, mk([body]), ["constant-operand"]))
        out.append(("additional:int beyond the decimal conversion limit:%s" % lab, mk([[I("LOAD_CONST", Constant(None), line_number=1), I("RETURN_VALUE", line_number=1)]], _additional_args=(Constant(v, 1),)), ["constant-additional"]))
    for s in ["", "plain", "caf\u00e9 \U0001F600", "\ud800", "a\udfffb", "'\ud800'", '\ud800"', "\udc80\\", "''\ud800", "quote\"back\\slash\nnewline", "\x00\x7f"]:
        sur = ["lone-surrogate-string-outside-constants"] if _has_surrogate(s) else []
        body = [I("LOAD_CONST", Constant(None), line_number=1), I("RETURN_VALUE", line_number=1)]
        out.append(("docstring:%r" % s, mk([body], type=Function(Args(), s)), ["pos:docstring"] + sur))
        out.append(("name:%r" % s, mk([[I("LOAD_NAME", Name(s), line_number=1)] + body]), ["pos:name"] + sur))
        out.append(("varname:%r" % s, mk([[I("LOAD_FAST", Varname(s), line_number=1)] + body], type=Function(Args())), ["pos:varname"] + sur))
        out.append(("argname:%r" % s, mk([body], type=Function(Args(positional_or_keyword=(s,), var_keyword=s + "k"))), ["pos:argname"] + sur))
        out.append(("cellvar:%r" % s, mk([[I("LOAD_DEREF", Cellvar(s), line_number=1)] + body], type=Function(Args())), ["pos:cellvar"] + sur))
        out.append(("freevar:%r" % s, mk([[I("LOAD_DEREF", Freevar(s), line_number=1)] + body], type=Function(Args()), freevars=(s,)), ["pos:freevar"] + sur))
        out.append(("filename:%r" % s, dataclasses.replace(mk([body]), filename=s), ["pos:filename"] + sur))
        out.append(("codename:%r" % s, mk([body], name=s), ["pos:codename"] + sur))
        out.append(("addl_name:%r" % s, mk([body], _additional_args=(Name(s, 0),)), ["pos:additional-name"] + sur))
    for n in [0, 1, -1, MAXI, MAXI + 1, -MAXI, -MAXI - 1, 2 ** 64, 2 ** 31]:
        body = [I("LOAD_CONST", Constant(None), line_number=1), I("RETURN_VALUE", line_number=1)]
        out.append(("intarg:%d" % n, mk([[I("LOAD_METHOD" if False else "CALL_FUNCTION", abs(n) % (2 ** 31), line_number=1)] + body]), ["pos:int-arg"]))
        out.append(("stacksize:%d" % n, dataclasses.replace(mk([body]), stacksize=abs(n) % (2 ** 31)), ["pos:stacksize"]))
    out.append(("additional_line", mk([[I("RETURN_VALUE", line_number=3)]], _additional_line=AdditionalLine(5, (1, -2))), ["pos:additional-line"]))
    out.append(("line_offsets_override", mk([[I("RETURN_VALUE", line_number=3, _line_offsets_override=(0, 4))]]), ["pos:line-offsets"]))
    out.append(("n_args_override", mk([[I("JUMP_ABSOLUTE", Jump(0), _n_args_override=3, line_number=1)]]), ["pos:n-args"]))
    out.append(("noarg_payload", mk([[I("RETURN_VALUE", NoArg(7), line_number=1)]]), ["pos:noarg"]))
    out.append(("flags", mk([[I("RETURN_VALUE", line_number=1)]], future_annotations=True, _nested=True, type=Function(Args(), None, "COROUTINE")), ["pos:flags"]))
    inner = mk([[I("RETURN_VALUE", line_number=1)]], name="inner", type=Function(Args(("p",), ("a",), "r", ("k",), "kw"), "doc\ud800" if False else "doc"))
    out.append(("nested_code", mk([[I("LOAD_CONST", Constant(inner), line_number=1), I("RETURN_VALUE", line_number=1)]]), ["pos:nested-code"]))
    # nested code whose file name / code name is not valid UTF-8 (compile(src, b"caf\xe9.py", ...) gives 'caf\udce9.py')
    for fname in ("caf\udce9.py", "\ud800"):
        inner2 = dataclasses.replace(inner, filename=fname, name="n\udcff")
        out.append(("nested_code_filename:%r" % fname, dataclasses.replace(mk([[I("LOAD_CONST", Constant(inner2), line_number=1), I("RETURN_VALUE", line_number=1)]], _additional_args=(Constant(inner2, 1),)), filename=fname),
                    ["pos:nested-code", "pos:filename"]))
    return out


@part("C07", "edge_values_by_position")
def c07_edge_positions(tier, seed):
    cases = c07_positions()
    fails, evals = [], 0
    for idx, (label, cd, tags) in enumerate(cases):
        evals += 1
        msgs = _json_cycle(cd, label[:60])
        if msgs:
            fails.append(fail("json_strict_roundtrip", label[:80], msgs, {"case": idx, "label": label}, tags))
    return result(evals, len(cases), fails[:60], [c[0] for c in cases[:2]] + [cases[-1][0]],
                  "%d hand-built CodeData: %d constant values (edge scalars x nesting) as instruction operand and as additional argument; 7 strings (incl. lone surrogates) at docstring / name / local / parameter / cell / free variable / filename / code name / additional-arg positions; integer edge values; every private field" % (len(cases), len(c08_values())))


@replayer("C07", "edge_values_by_position")
def c07_positions_replay(rec):
    label, cd, tags = c07_positions()[rec["recipe"]["case"]]
    return _json_cycle(cd, label[:60], keep_doc=False)


def dump_docs(path):
    with open(path, "w") as f:
        for s in _DOCS:
            f.write(s + "\n")


# =========================================================================================== C05
def _sym_stream(code):
    """symbolic instruction stream of a code object: (opname, kind, resolved value / jump target instruction index, line)"""
    ref = oracle.cpython_instructions(code)
    idx = {off: i for i, (off, _, _, _, _) in enumerate(ref)}
    lines = oracle.cpython_line_of_offsets(code)
    out = []
    for off, opname, kind, val, n in ref:
        if kind in ("jabs", "jrel"):
            v = ("->", idx.get(val, ("mid-instruction", val)))
        elif kind == "const":
            v = ("code", val.co_name, val.co_firstlineno, _digest(_sym_stream(val))) if isinstance(val, types.CodeType) else oracle.const_repr(val)
        elif kind == "noarg":
            v = None
        else:
            v = val
        out.append((opname, kind, v, lines.get(off)))
    return out


def _digest(x):
    import hashlib
    return hashlib.md5(repr(x).encode()).hexdigest()[:12]


_NESTED, _NOFREE = inspect.CO_NESTED, inspect.CO_NOFREE


def c05_static(code, dec):
    cd, err = dec.get(code)
    if err is not None:
        return decode_failure(code, err)
    try:
        c2 = cd.normalize().to_code()
    except Exception as e:
        return ["normalize().to_code() raised %s: %s" % (type(e).__name__, e)]
    msgs = []
    a, b = _sym_stream(code), _sym_stream(c2)
    if len(a) != len(b):
        return ["instruction count %d != %d" % (len(a), len(b))]
    for i, (x, y) in enumerate(zip(a, b)):
        if x != y:
            msgs.append("instruction %d: %r became %r" % (i, x, y))
            break
    for h in ["co_argcount", "co_kwonlyargcount", "co_freevars", "co_name", "co_filename", "co_firstlineno", "co_stacksize"] + (["co_posonlyargcount"] if PY38 else []):
        if getattr(code, h) != getattr(c2, h):
            msgs.append("%s: %r != %r" % (h, getattr(code, h), getattr(c2, h)))
    fd = code.co_flags ^ c2.co_flags
    if fd & ~(_NESTED | _NOFREE):
        msgs.append("flags differ beyond CO_NESTED/CO_NOFREE: %#x vs %#x" % (code.co_flags, c2.co_flags))
    if fd & _NOFREE and not (set(code.co_cellvars) - set(c2.co_cellvars)):
        msgs.append("CO_NOFREE changed although no cell variable disappeared")
    npar = code.co_argcount + code.co_kwonlyargcount + bool(code.co_flags & 4) + bool(code.co_flags & 8)
    if code.co_varnames[:npar] != c2.co_varnames[:npar]:
        msgs.append("parameter names %r != %r" % (code.co_varnames[:npar], c2.co_varnames[:npar]))
    is_fn = bool(code.co_flags & inspect.CO_OPTIMIZED) and bool(code.co_flags & inspect.CO_NEWLOCALS)
    if is_fn:
        d1 = code.co_consts[0] if code.co_consts and isinstance(code.co_consts[0], str) else None
        d2 = c2.co_consts[0] if c2.co_consts and isinstance(c2.co_consts[0], str) else None
        if d1 != d2:
            msgs.append("docstring %r became %r" % (d1, d2))
    used1 = set(v for (_, k, v, _) in a if k == "cell")
    if used1 - set(c2.co_cellvars):
        msgs.append("used cell variables lost")
    return msgs[:4]


CORPUS_CHECKS["C05"] = [("normalize_preserves_meaning_static", c05_static)]

C05_PROGRAMS = [
    "x = 1\ny = x + 2\nprint(x, y)\n",
    "def f(a, b=2, *c, d=4, **e):\n    '''doc'''\n    return a + b + len(c) + d + len(e)\nprint(f(1), f(1, 2, 3, d=5, z=6), f.__doc__)\n",
    "def fib(n):\n    return n if n < 2 else fib(n - 1) + fib(n - 2)\nprint([fib(i) for i in range(10)])\n",
    "def outer(q):\n    acc = []\n    def inner(z):\n        acc.append(z + q)\n        return acc\n    return inner\ng = outer(10)\ng(1)\nprint(g(2))\n",
    "class A:\n    '''cls doc'''\n    k = 3\n    def m(self, x):\n        return self.k * x\n    @property\n    def p(self):\n        return __class__.__name__\nprint(A().m(4), A().p, A.__doc__)\n",
    "def gen(n):\n    for i in range(n):\n        if i % 2:\n            continue\n        yield i\n    return 'done'\nprint(list(gen(7)))\n",
    "try:\n    1 / 0\nexcept ZeroDivisionError as e:\n    print('caught', type(e).__name__)\nelse:\n    print('no')\nfinally:\n    print('fin')\n",
    "def f(x):\n    try:\n        if x:\n            return 'early'\n        raise ValueError(x)\n    except ValueError as e:\n        return 'handled %r' % (e.args,)\n    finally:\n        print('cleanup', x)\nprint(f(0), f(1))\n",
    "import contextlib\n@contextlib.contextmanager\ndef cm():\n    print('enter')\n    yield 5\n    print('exit')\nwith cm() as v:\n    print(v)\n",
    "t = 0\ni = 0\nwhile i < 20:\n    i += 1\n    if i == 3:\n        continue\n    if i > 15:\n        break\n    t += i\nelse:\n    t = -1\nprint(t, i)\n",
    "print({k: [v for v in range(k)] for k in range(4)}, {c for c in 'abca'}, sum(i * i for i in range(5)))\n",
    "x = (1, 1.0, True, 0.0, -0.0, 'a', b'a', None, ..., 1j, (1, (2, 3)), 2**70)\nprint([type(v).__name__ for v in x], repr(x[3]), repr(x[4]))\n",
    "def f(a, /, b, *, c):\n    return (a, b, c)\nprint(f(1, 2, c=3))\n" if PY38 else "def f(a, b, *, c):\n    return (a, b, c)\nprint(f(1, 2, c=3))\n",
    "def f():\n    raise KeyError('boom')\ntry:\n    f()\nexcept KeyError as e:\n    print(repr(e))\n",
    "a, *b, c = range(6)\nprint(a, b, c, [*b, a], {**{'k': 1}})\n",
    "def deco(fn):\n    def w(*a, **k):\n        print('call', fn.__name__)\n        return fn(*a, **k)\n    return w\n@deco\ndef g(x):\n    return x * 2\nprint(g(21))\n",
    "s = 0\nfor i in range(3):\n    for j in range(3):\n        if j == i:\n            break\n        s += i * j\nprint(s)\n",
    "x = 5\ny = (\n    x +\n    1\n)\nprint(\n    y\n)\n",
    "def f(n):\n    return [lambda: i for i in range(n)]\nprint([g() for g in f(3)])\n",
    "x = 1" + "\n" * 300 + "print(x)\n",
    "y = " + "-" * 130 + "3\nprint(y)\n",
    "assert True, 'never'\nprint(f'{3!r:>4}|{\"a\"}')\n",
    "def fn():\n    return 7\n    def dead():\n        pass\nprint(fn())\n",
    "raise SystemError('top-level failure')\n",
    "nan = 1e999 - 1e999\nprint(nan != nan, (1e999, -1e999))\n",
    "fs = (lambda x: x - 1, lambda x: x + 1, lambda x: x * 2)\nprint([f(3) for f in fs])\n",
    "import math\nz = (1+0j, -(-1+0j), 1e999j, -(0.0-2j))\nprint([(math.copysign(1, c.real), math.copysign(1, c.imag)) for c in z], z)\n",
    "def run(n):\n    t = 0\n    for i in range(n):\n        if i % 3 == 0:\n            continue\n" + "".join("        t += i\n" for _ in range(120)) + "    return t\nprint(run(7))\n",
    "def outer(y):\n    def f(x):\n        if 0:\n            def g():\n                return x\n        return y + x\n    return f\nprint(outer(3)(4))\n",
    "r = [a for a in range(2)] + [a * 2 for a in range(2)]\nprint(r, [(lambda: 1)(), (lambda: 2)()])\n",
    "a = (0.0, -0.0, (1, 2), (1.0, 2.0), (True, False), (1, 0))\nprint(a, [type(x).__name__ for t in a[2:] for x in t])\n",
]


def _run_traced(code):
    events = []
    fn = code.co_filename

    def tracer(frame, event, arg):
        if frame.f_code.co_filename == fn:
            if event == "line":
                events.append((frame.f_code.co_name, frame.f_lineno))
            return tracer
        return None
    buf = io.StringIO()
    ns = {"__name__": "__c05__"}
    exc = None
    old = sys.gettrace()
    with contextlib.redirect_stdout(buf):
        sys.settrace(tracer)
        try:
            exec(code, ns)
        except BaseException as e:
            exc = (type(e).__name__, str(e))
        finally:
            sys.settrace(old)
    keys = sorted(k for k in ns if not k.startswith("__"))
    import re
    simple = {k: re.sub(r" at 0x[0-9a-f]+", "", repr(ns[k])) for k in keys if isinstance(ns[k], (int, float, str, bytes, tuple, list, dict, set, type(None), bool))}
    return buf.getvalue(), exc, events, keys, simple


@part("C05", "execution_equivalence")
def c05_exec(tier, seed):
    fails, evals = [], 0
    for pi, src in enumerate(C05_PROGRAMS):
        evals += 1
        code = compile(src, "<c05:%d>" % pi, "exec", dont_inherit=True)
        try:
            c2 = CodeData.from_code(code).normalize().to_code()
        except Exception as e:
            fails.append(fail("execution_equivalence", "prog:%d" % pi, ["normalize/to_code raised %s: %s" % (type(e).__name__, e)], {"prog": pi}))
            continue
        r1, r2 = _run_traced(code), _run_traced(c2)
        names = ["stdout", "exception", "traced line events", "global names", "global values"]
        msgs = ["%s differ: %r != %r" % (n, str(x)[:160], str(y)[:160]) for n, x, y in zip(names, r1, r2) if x != y]
        if msgs:
            fails.append(fail("execution_equivalence", "prog:%d" % pi, msgs, {"prog": pi}))
    return result(evals, len(C05_PROGRAMS), fails, [C05_PROGRAMS[0], C05_PROGRAMS[5]], "%d terminating programs executed before and after normalize().to_code() with stdout capture and sys.settrace line events" % len(C05_PROGRAMS))


@replayer("C05", "execution_equivalence")
def c05_exec_replay(rec):
    pi = rec["recipe"]["prog"]
    code = compile(C05_PROGRAMS[pi], "<c05:%d>" % pi, "exec", dont_inherit=True)
    c2 = CodeData.from_code(code).normalize().to_code()
    r1, r2 = _run_traced(code), _run_traced(c2)
    return ["%s differ" % n for n, x, y in zip(["stdout", "exception", "trace", "names", "values"], r1, r2) if x != y]


# =========================================================================================== C06
def _op_code(x):
    return CodeData.from_code(x.to_code())


def _op_json(x):
    return CodeData.from_json_data(json.loads(json.dumps(x.to_json_data(), allow_nan=False)))


def _op_norm(x):
    return x.normalize()


OPS = {"R": _op_code, "J": _op_json, "N": _op_norm}


def c06_histories(code, dec, maxlen=None):
    cd, err = dec.get(code)
    if err is not None:
        return decode_failure(code, err)
    if maxlen is None:     # quick tier: all histories of length 1 everywhere, length 2 on a deterministic quarter of the code objects
        maxlen = 3 if os.environ.get("PCV_TIER") == "thorough" and (len(code.co_code) // 2) % 5 == 0 else 2 if (os.environ.get("PCV_TIER") == "thorough" or (len(code.co_code) // 2) % 4 == 0) else 1
    n = cd.normalize()
    msgs = []
    if n.normalize() != n:
        msgs.append("normalize is not idempotent")
    for L in range(1, maxlen + 1):
        for seq in itertools.product("RJN", repeat=L):
            x = cd
            try:
                for o in seq:
                    x = OPS[o](x)
                    if o != "N":
                        x = x.normalize()      # re-normalizing after each decode, as the property states
                if x.normalize() != n:
                    msgs.append("history %s: normalized result differs from normalize(from_code(c))" % "".join(seq))
            except Exception as e:
                msgs.append("history %s raised %s: %s" % ("".join(seq), type(e).__name__, str(e)[:120]))
            if len(msgs) > 3:
                return msgs
    return msgs


CORPUS_CHECKS["C06"] = [("normal_form_stable_under_histories", c06_histories)]


def _permuted_variants(code, rnd):
    """table-permuted / padded variants of a code object whose table operands all fit one byte (no EXTENDED_ARG involved):
    names, constants (slot 0 stays: it is the docstring slot), non-parameter locals; plus unreferenced extra entries; plus CO_NESTED."""
    bc = bytearray(code.co_code)
    if any(bc[i] == dis.EXTENDED_ARG for i in range(0, len(bc), 2)):
        return
    if max(len(code.co_names), len(code.co_consts), len(code.co_varnames)) > 250:
        return
    npar = code.co_argcount + code.co_kwonlyargcount + bool(code.co_flags & 4) + bool(code.co_flags & 8)

    def perm(n, fixed):
        idx = list(range(fixed, n))
        rnd.shuffle(idx)
        return list(range(fixed)) + idx
    for trial in range(2):
        pn, pc, pv = perm(len(code.co_names), 0), perm(len(code.co_consts), 1), perm(len(code.co_varnames), npar)
        pcell = perm(len(code.co_cellvars), 0)
        ncell = len(code.co_cellvars)
        b2 = bytearray(bc)
        for i in range(0, len(b2), 2):
            op = b2[i]
            if op in dis.hasname:
                b2[i + 1] = pn[b2[i + 1]]
            elif op in dis.hasconst:
                b2[i + 1] = pc[b2[i + 1]]
            elif op in dis.haslocal:
                b2[i + 1] = pv[b2[i + 1]]
            elif op in dis.hasfree and b2[i + 1] < ncell:
                b2[i + 1] = pcell[b2[i + 1]]

        def apply(t, p):
            out = [None] * len(t)
            for i, v in enumerate(t):
                out[p[i]] = v
            return tuple(out)
        names, consts, varnames = apply(code.co_names, pn), apply(code.co_consts, pc), apply(code.co_varnames, pv)
        cellvars = apply(code.co_cellvars, pcell)
        yield "permuted%d" % trial, code_replace(code, co_code=bytes(b2), co_names=names, co_consts=consts, co_varnames=varnames, co_cellvars=cellvars)
        yield "permuted+padded%d" % trial, code_replace(code, co_code=bytes(b2), co_names=names + ("__pad_name__",), co_consts=consts + (987654321, "pad"), co_cellvars=cellvars,
                                                         co_varnames=varnames + (("__pad_local__",) if code.co_flags & inspect.CO_OPTIMIZED else ()),
                                                         co_nlocals=len(varnames) + (1 if code.co_flags & inspect.CO_OPTIMIZED else 0))
    yield "nested-flag", code_replace(code, co_flags=code.co_flags ^ inspect.CO_NESTED)


def c06_variants(code, dec):
    cd, err = dec.get(code)
    if err is not None:
        return decode_failure(code, err)
    if any(isinstance(c, types.CodeType) for c in code.co_consts):
        nested = True
    n = cd.normalize()
    rnd = random.Random(len(code.co_code))
    msgs = []
    for label, v in _permuted_variants(code, rnd):
        try:
            nv = CodeData.from_code(v).normalize()
        except Exception as e:
            msgs.append("%s variant: from_code raised %s: %s" % (label, type(e).__name__, str(e)[:120]))
            continue
        if nv != n:
            msgs.append("%s variant normalizes to different CodeData" % label)
        if len(msgs) > 2:
            break
    return msgs


CORPUS_CHECKS["C06"].append(("artefact_variants_normalize_equal", c06_variants))


# =========================================================================================== C15 worker
def c15_write(path, tier, seed):
    """documents written under this interpreter: one JSON line {id, doc, normalized} per code object"""
    units = gen.corpus("quick", seed, ("g1", "g2", "g3"))
    n = 0
    with open(path, "w") as f:
        for uid, top, rec in units:
            if tier != "thorough" and (n > 900):
                break
            for p, c in gen.walk_code(top):
                try:
                    cd = CodeData.from_code(c)
                    doc = cd.to_json_data()
                    ndoc = cd.normalize().to_json_data()
                    f.write(json.dumps({"id": "%s%r" % (uid, list(p)), "doc": doc, "normalized": ndoc}, allow_nan=False) + "\n")
                    n += 1
                except Exception:
                    continue
                break      # top-level document contains the nested ones
    return n


def canon(j):
    """canonical dump modulo the listing order of frozenset elements"""
    if isinstance(j, dict):
        if set(j) == {"frozenset"} and isinstance(j["frozenset"], list):
            return {"frozenset": sorted((canon(x) for x in j["frozenset"]), key=lambda x: json.dumps(x, sort_keys=True))}
        return {k: canon(v) for k, v in j.items()}
    if isinstance(j, list):
        return [canon(x) for x in j]
    return j


def doc_tags(doc):
    """input-class tags of a JSON document, computed from the document alone"""
    tags = set()

    def walk(j, in_constant):
        if isinstance(j, dict):
            if set(j) == {"string"} and not in_constant:
                tags.add("lone-surrogate-string-outside-constants")
            for k, v in j.items():
                walk(v, in_constant or k == "constant" and not (isinstance(v, dict) and "filename" in v))
        elif isinstance(j, list):
            for v in j:
                walk(v, in_constant)
    walk(doc, False)
    return sorted(tags)


def c15_read(path, out_path):
    """load every document, re-serialize, normalize; report per id the canonical dumps"""
    res = {"n": 0, "failures": []}
    with open(path) as f, open(out_path, "w") as out:
        for line in f:
            rec = json.loads(line)
            res["n"] += 1
            try:
                x = CodeData.from_json_data(rec["doc"])
                again = x.to_json_data()
                norm = x.normalize().to_json_data()
                a, b = json.dumps(canon(again), sort_keys=True), json.dumps(canon(rec["doc"]), sort_keys=True)
                if a != b:
                    res["failures"].append({"id": rec["id"], "msg": "document re-serializes differently on this host", "tags": doc_tags(rec["doc"])})
                nb = json.dumps(canon(rec["normalized"]), sort_keys=True)
                na = json.dumps(canon(norm), sort_keys=True)
                if na != nb:
                    res["failures"].append({"id": rec["id"], "msg": "normalize gives a different result on this host than on the producer", "tags": doc_tags(rec["doc"])})
                out.write(json.dumps({"id": rec["id"], "norm": na}) + "\n")
            except Exception as e:
                res["failures"].append({"id": rec["id"], "msg": "load raised %s: %s" % (type(e).__name__, str(e)[:160]), "tags": doc_tags(rec["doc"])})
    return res
