"""C15 worker: `python -m rtc.c15 write <out.jsonl> <tier> <seed>` under a producer, `python -m rtc.c15 read <in.jsonl> <out.json>` under a consumer."""
import json
import sys


def main():
    sys.setrecursionlimit(10000)
    from .run import install_api_time_limits
    install_api_time_limits(600)
    from . import props2
    props2._load_more()
    from . import props5
    if sys.argv[1] == "write":
        n = props5.c15_write(sys.argv[2], sys.argv[3], int(sys.argv[4]))
        print(json.dumps({"written": n, "python": list(sys.version_info[:3])}))
    else:
        res = props5.c15_read(sys.argv[2], sys.argv[3] + ".norms")
        res["python"] = list(sys.version_info[:3])
        json.dump(res, open(sys.argv[3], "w"))


if __name__ == "__main__":
    main()
