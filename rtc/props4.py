"""E3 parts: C03 hand-built CodeData (G5), C07 JSON, C05/C06 normalization, C15 portability helpers."""
import dataclasses
import dis
import inspect
import io
import itertools
import json
import random
import sys
import types
import contextlib

from code_data import (AdditionalLine, Args, Cellvar, CodeData, Constant, Freevar, Function, Instruction, Jump, Name, NoArg, Varname)

from .props import decode_failure  # noqa: E402
from . import gen, oracle
from .props import flat
from .props2 import CORPUS_CHECKS, PY38, PY310, code_replace, fail, part, replayer, result

I = Instruction


def mk(blocks, type=None, freevars=(), name="hand", **kw):
    return CodeData(blocks=tuple(tuple(b) for b in blocks), filename="<hand>", first_line_number=kw.pop("first", 1), name=name, stacksize=10,
                    type=type, freevars=tuple(freevars), **kw)


# ------------------------------------------------------------------ the C03 oracle
def c03_check(cd, expect_raise=False):
    """messages; CPython's own disassembler / line reader / inspect are the oracle"""
    try:
        code = cd.to_code()
    except Exception as e:
        if expect_raise:
            return []
        return ["to_code raised %s: %s" % (type(e).__name__, str(e)[:200])]
    msgs = []
    tables = {"name": code.co_names, "local": code.co_varnames, "const": code.co_consts, "cellfree": code.co_cellvars + code.co_freevars}
    # every operand indexes inside its table (dis would raise IndexError, CPython would crash)
    raw_bad = []
    ext = 0
    for i in range(0, len(code.co_code), 2):
        op, arg = code.co_code[i], code.co_code[i + 1] | ext
        if op == dis.EXTENDED_ARG:
            ext = arg << 8
            continue
        ext = 0
        for cls, t in ((dis.hasname, "name"), (dis.haslocal, "local"), (dis.hasconst, "const"), (dis.hasfree, "cellfree")):
            if op in cls and not (0 <= arg < len(tables[t])):
                raw_bad.append("offset %d %s operand %d indexes outside its table of %d entries" % (i, dis.opname[op], arg, len(tables[t])))
    if raw_bad:
        if expect_raise:
            return ["to_code emitted an operand that indexes outside its table instead of raising: " + raw_bad[0]]
        return raw_bad[:3]
    # inconsistent overrides that happen to give in-range operands need not raise - but then the code must still say what the data says
    try:
        ref = oracle.cpython_instructions(code)
    except Exception as e:
        return ["CPython's disassembler cannot read the emitted code: %s: %s" % (type(e).__name__, e)]
    mine = flat(cd)
    if len(ref) != len(mine):
        return ["dis reads %d instructions, data has %d" % (len(ref), len(mine))]
    firsts, k = [], 0
    for b in cd.blocks:
        firsts.append(ref[k][0] if k < len(ref) else None)
        k += len(b)
    lines = oracle.cpython_line_of_offsets(code)
    for i, (ins, (off, opname, kind, val, n)) in enumerate(zip(mine, ref)):
        w = "instr %d (%s @%d)" % (i, ins.name, off)
        a = ins.arg
        if opname != ins.name:
            msgs.append("%s: dis reads %s" % (w, opname))
        elif isinstance(a, Jump):
            if kind not in ("jabs", "jrel") or val != firsts[a.target]:
                msgs.append("%s: jump to block %d (first instruction @%s) but CPython lands @%s" % (w, a.target, firsts[a.target], val))
            elif a.relative != (kind == "jrel"):
                msgs.append("%s: relative=%r but the opcode is %s" % (w, a.relative, kind))
        elif isinstance(a, Name):
            if (kind, val) != ("name", a.name):
                msgs.append("%s: resolves to %s %r, not name %r" % (w, kind, val, a.name))
        elif isinstance(a, Varname):
            if (kind, val) != ("local", a.varname):
                msgs.append("%s: resolves to %s %r, not local %r" % (w, kind, val, a.varname))
        elif isinstance(a, Cellvar):
            if (kind, val) != ("cell", a.cellvar):
                msgs.append("%s: resolves to %s %r, not cell %r" % (w, kind, val, a.cellvar))
        elif isinstance(a, Freevar):
            if (kind, val) != ("free", a.freevar):
                msgs.append("%s: resolves to %s %r, not free variable %r" % (w, kind, val, a.freevar))
        elif isinstance(a, Constant):
            if kind != "const" or (not isinstance(a.constant, CodeData) and oracle.const_repr(val) != oracle.const_repr(a.constant)):
                msgs.append("%s: resolves to %s %r, not constant %r" % (w, kind, val, a.constant))
        if ins.line_number != lines.get(off) and not msgs:
            msgs.append("%s: given line %r, CPython's table says %r" % (w, ins.line_number, lines.get(off)))
        if len(msgs) >= 3:
            return msgs
    if code.co_freevars != cd.freevars:
        msgs.append("co_freevars %r != %r" % (code.co_freevars, cd.freevars))
    is_fn = isinstance(cd.type, Function)
    want_flags = (inspect.CO_NEWLOCALS | inspect.CO_OPTIMIZED) if is_fn else 0
    if (code.co_flags & (inspect.CO_NEWLOCALS | inspect.CO_OPTIMIZED)) != want_flags:
        msgs.append("function flags %#x do not match type %r" % (code.co_flags, cd.type))
    if is_fn:
        a = cd.type.args
        try:
            f = types.FunctionType(code, {}, "f", None, tuple(_cell() for _ in code.co_freevars))
            sig = [(p.name, p.kind.name) for p in inspect.signature(f).parameters.values()]
            want = ([(n, "POSITIONAL_ONLY") for n in a.positional_only] + [(n, "POSITIONAL_OR_KEYWORD") for n in a.positional_or_keyword]
                    + ([(a.var_positional, "VAR_POSITIONAL")] if a.var_positional else []) + [(n, "KEYWORD_ONLY") for n in a.keyword_only]
                    + ([(a.var_keyword, "VAR_KEYWORD")] if a.var_keyword else []))
            # oracle caveat: inspect renames a comprehension's implicit parameter `.0` to `implicit0` and reports it positional-only
            want = [(("implicit" + n[1:]), "POSITIONAL_ONLY") if n.startswith(".") else (n, k) for n, k in want]
            if sig != want:
                msgs.append("inspect.signature %r != described %r" % (sig, want))
            if f.__doc__ != cd.type.docstring:
                msgs.append("__doc__ %r != docstring %r" % (f.__doc__, cd.type.docstring))
        except Exception as e:
            msgs.append("cannot build a function from the emitted code: %s" % e)
    if msgs:
        return msgs
    try:
        again = CodeData.from_code(code)
        if flat_stream(again.normalize()) != flat_stream(cd.normalize()):
            msgs.append("decoding the emitted code gives data different from the input up to normalization (flattened instruction stream)")
    except Exception as e:
        msgs.append("decoding the emitted code raised %s: %s" % (type(e).__name__, e))
    return msgs


def _cell():
    x = None
    return (lambda: x).__closure__[0]


def flat_stream(cd):
    """The data with the block structure flattened: jump targets become instruction indices (a hand-built block that no jump
    targets is legitimately merged with its predecessor by the decoder)."""
    starts, k = [], 0
    for b in cd.blocks:
        starts.append(k)
        k += len(b)
    out = []
    for b in cd.blocks:
        for ins in b:
            a = ins.arg
            if isinstance(a, Jump):
                a = ("jump", starts[a.target] if 0 <= a.target < len(starts) else None, a.relative)
            out.append((ins.name, a, ins.line_number))
    return (out, dataclasses.replace(cd, blocks=()))


# ------------------------------------------------------------------ G5 generators (recipes are JSON-able; build() makes the CodeData)
def nops(n, line=1):
    return [I("NOP", line_number=line) for _ in range(n)]


def build(recipe):
    k = recipe["kind"]
    if k == "jumps":
        sizes, jumps = recipe["sizes"], recipe["jumps"]
        blocks = []
        for bi, (sz, j) in enumerate(zip(sizes, jumps)):
            body = nops(sz, line=bi + 1)
            if j is not None:
                opname, tgt, rel = j
                body.append(I(opname, Jump(tgt, rel), line_number=bi + 1))
            blocks.append(body)
        blocks[-1].append(I("LOAD_CONST", Constant(None), line_number=len(sizes)))
        blocks[-1].append(I("RETURN_VALUE", line_number=len(sizes)))
        return mk(blocks), False
    if k == "table":
        n, what = recipe["n"], recipe["what"]
        body = []
        if what == "names":
            body = [I("LOAD_NAME", Name("n%d" % i), line_number=1) for i in range(n)]
        elif what == "consts":
            body = [I("LOAD_CONST", Constant(i + 1000), line_number=1) for i in range(n)]
        elif what == "locals":
            body = [I("LOAD_FAST", Varname("v%d" % i), line_number=1) for i in range(n)]
        body += [I("LOAD_CONST", Constant(None), line_number=1), I("RETURN_VALUE", line_number=1)]
        tp = Function(Args()) if what == "locals" else None
        return mk([body], type=tp), False
    if k == "consts":
        vals = c03_distinct_constants()
        order = recipe["order"]
        body = [I("LOAD_CONST", Constant(vals[i]), line_number=1) for i in order] + [I("RETURN_VALUE", line_number=1)]
        return mk([body]), False
    if k == "lines":
        ls = recipe["lines"]
        body = [I("NOP", line_number=l) for l in ls] + [I("RETURN_VALUE", line_number=ls[-1])]
        return mk([body], first=recipe.get("first", 1)), False
    if k == "args":
        po, pk, va, ko, vk = recipe["shape"]
        a = Args(tuple("p%d" % i for i in range(po)), tuple("a%d" % i for i in range(pk)), "rest" if va else None, tuple("k%d" % i for i in range(ko)), "kw" if vk else None)
        names = list(a.positional_only + a.positional_or_keyword) + (["rest"] if va else []) + list(a.keyword_only) + (["kw"] if vk else [])
        order = recipe.get("use", "fwd")
        use = names if order == "fwd" else list(reversed(names))
        body = [I("LOAD_FAST", Varname(n), line_number=1) for n in use] + [I("LOAD_FAST", Varname("extra_local"), line_number=1), I("LOAD_CONST", Constant(recipe.get("const", None)), line_number=1), I("RETURN_VALUE", line_number=1)]
        # before 3.8 positional-only parameters cannot be expressed: to_code must refuse, or else emit code whose signature is what the data says
        return mk([body], type=Function(a, recipe.get("doc"), recipe.get("ftype"))), bool(po and not PY38)
    if k == "cells":
        nc, nf, pad = recipe["ncells"], recipe["nfrees"], recipe["pad"]
        b0 = [I("LOAD_DEREF", Cellvar("c%d" % i), line_number=1) for i in range(nc)]
        b0 += [I("JUMP_ABSOLUTE", Jump(1), line_number=1)] if recipe.get("jump") == "abs" else ([I("JUMP_FORWARD", Jump(1, True), line_number=1)] if recipe.get("jump") == "rel" else [])
        b0 += [I("LOAD_DEREF", Freevar("f%d" % i), line_number=1) for i in range(nf)] + nops(pad)
        b1 = [I("LOAD_DEREF", Freevar("f0"), line_number=2)] if nf else []
        b1 += [I("LOAD_CONST", Constant(None), line_number=2), I("RETURN_VALUE", line_number=2)]
        blocks = [b0, b1] if recipe.get("jump") else [b0 + b1]
        return mk(blocks, type=Function(Args()), freevars=tuple("f%d" % i for i in range(nf))), False
    if k == "overrides":
        pat = recipe["pattern"]
        if pat == "consistent":      # a permutation of 0..2
            ov = [2, 0, 1]
            body = [I("LOAD_NAME", Name("n%d" % i, ov[i]), line_number=1) for i in range(3)]
            bad = False
        elif pat == "gap":           # a lone override far outside the table
            body = [I("LOAD_NAME", Name("x", recipe.get("at", 5)), line_number=1)]
            bad = True
        elif pat == "gap2":
            body = [I("LOAD_CONST", Constant("a"), line_number=1), I("LOAD_CONST", Constant("b", recipe.get("at", 3)), line_number=1)]
            bad = True
        elif pat == "negative":      # positions {-1, 1}: the largest one fits, the smallest is outside the table
            mkop = {"name": lambda v, o=None: I("LOAD_NAME", Name(v, o), line_number=1), "const": lambda v, o=None: I("LOAD_CONST", Constant(v, o), line_number=1),
                    "var": lambda v, o=None: I("LOAD_FAST", Varname(v, o), line_number=1)}[recipe.get("table", "name")]
            body = [mkop("a", recipe.get("at", -1)), mkop("b")]
            bad = True
        elif pat == "collision":     # two different names forced into one slot
            body = [I("LOAD_NAME", Name("x", 0), line_number=1), I("LOAD_NAME", Name("y", 0), line_number=1)]
            bad = True
        elif pat == "collision_const":
            body = [I("LOAD_CONST", Constant(1, 0), line_number=1), I("LOAD_CONST", Constant(True, 0), line_number=1)]
            bad = True
        elif pat == "collision_fill":     # overrides at 0 and 2, an entry without override (wants slot 2), then the hole is filled
            body = [I("LOAD_CONST", Constant("x", 0), line_number=1), I("LOAD_CONST", Constant("y", 2), line_number=1), I("LOAD_CONST", Constant("z"), line_number=1),
                    I("LOAD_CONST", Constant("w", 1), line_number=1)]
            bad = True
        elif pat == "collision_fill_names":
            body = [I("LOAD_NAME", Name("x", 0), line_number=1), I("LOAD_NAME", Name("y", 2), line_number=1), I("LOAD_NAME", Name("z"), line_number=1), I("LOAD_NAME", Name("w", 1), line_number=1)]
            bad = True
        else:
            raise ValueError(pat)
        body += [I("RETURN_VALUE", line_number=1)]
        return mk([body]), bad
    raise ValueError(k)


def c03_distinct_constants():
    return [0, 0.0, -0.0, False, 1, True, 1.0, "a", b"a", "", b"", None, Ellipsis, (0,), (0.0,), (-0.0,), (False,), (1,), (True,), (1.0,),
            frozenset([1]), frozenset([1.0]), frozenset([True]), 0j, complex(0.0, -0.0), complex(-0.0, 0.0), 1j, complex(1, 0), ("a",), (b"a",),
            2 ** 64, -1, float("inf"), float("-inf"), (0, (0.0, (False,))), (0, (0, (0,)))]


ABS = ["JUMP_ABSOLUTE", "POP_JUMP_IF_FALSE", "POP_JUMP_IF_TRUE"]
REL = ["JUMP_FORWARD", "FOR_ITER", "SETUP_FINALLY"]


def c03_recipes(tier, seed):
    full = tier == "thorough"
    rnd = random.Random(seed)
    out = []
    sizes_q = [0, 1, 62, 63, 64, 125, 126, 127, 128, 129, 253, 254, 255, 256, 257]
    sizes_t = sizes_q + [510, 511, 512, 32766, 32767, 32768, 65534, 65535, 65536]
    # two blocks, every size, jump back (abs) and forward (abs, rel)
    for s0, s1 in itertools.product(sizes_t if full else sizes_q, [0, 1, 127, 128, 255, 256]):
        for op in ABS[:2 if not full else 3]:
            out.append({"kind": "jumps", "sizes": [s0, s1], "jumps": [(op, 1, False), (op, 0, False)]})
        for op in REL[:1 if not full else 3]:
            out.append({"kind": "jumps", "sizes": [s0, s1], "jumps": [(op, 1, True), None]})
    # 3-4 blocks, seeded: cascading growth
    S = [0, 1, 60, 63, 64, 120, 125, 126, 127, 128, 129, 250, 253, 254, 255, 256]
    for _ in range(4000 if full else 400):
        nb = rnd.choice([3, 4])
        sizes = [rnd.choice(S) for _ in range(nb)]
        jumps = []
        for bi in range(nb):
            r = rnd.random()
            if r < 0.15:
                jumps.append(None)
            elif r < 0.7:
                jumps.append((rnd.choice(ABS), rnd.randrange(nb), False))
            else:
                tg = rnd.randrange(bi + 1, nb) if bi + 1 < nb else None
                jumps.append((rnd.choice(REL), tg, True) if tg is not None else (rnd.choice(ABS), rnd.randrange(nb), False))
        out.append({"kind": "jumps", "sizes": sizes, "jumps": jumps})
    for n in [0, 1, 2, 255, 256, 257] + ([65535, 65536, 70000] if full else []):
        for what in ("names", "consts", "locals"):
            out.append({"kind": "table", "n": n, "what": what})
    nconst = len(c03_distinct_constants())
    out.append({"kind": "consts", "order": list(range(nconst))})
    out.append({"kind": "consts", "order": list(reversed(range(nconst)))})
    for _ in range(40 if full else 6):
        o = list(range(nconst))
        rnd.shuffle(o)
        out.append({"kind": "consts", "order": o + o[:5]})
    deltas = [0, 1, -1, 2, 126, 127, 128, 129, -127, -128, -129, 254, 255, 300, -300, 1000]
    for _ in range(3000 if full else 300):
        n = rnd.choice([1, 2, 3, 5, 8])
        cur = 2000
        ls = []
        for i in range(n):
            if PY310 and rnd.random() < 0.2:
                ls.append(None)
            else:
                cur += rnd.choice(deltas)
                ls.append(cur)
        if ls[-1] is None:
            ls[-1] = cur
        out.append({"kind": "lines", "lines": ls, "first": rnd.choice([1, 2000, 1990])})
    rng = (0, 1, 2)
    for shape in itertools.product(rng if PY38 else (0,), rng, (0, 1), rng, (0, 1)):
        for use in ("fwd", "rev"):
            out.append({"kind": "args", "shape": list(shape), "use": use})
    if not PY38:
        for shape in ((1, 0, 0, 0, 0), (1, 1, 0, 0, 0), (2, 1, 1, 1, 1), (1, 0, 0, 2, 0)):
            out.append({"kind": "args", "shape": list(shape), "use": "fwd"})
    for doc, const in (("the doc", None), (None, "a string first"), ("doc", "doc"), (None, None)):
        for ft in (None, "GENERATOR", "COROUTINE", "ASYNC_GENERATOR"):
            out.append({"kind": "args", "shape": [0, 1, 1, 1, 1], "doc": doc, "const": const, "ftype": ft})
    for nc, nf in [(0, 0), (1, 1), (3, 0), (0, 3), (200, 50), (255, 0), (256, 0), (250, 10), (0, 300), (255, 1), (128, 128)]:
        for jump in (None, "abs", "rel"):
            for pad in (0, 200):
                out.append({"kind": "cells", "ncells": nc, "nfrees": nf, "pad": pad, "jump": jump})
    for pat in ("consistent", "gap", "gap2", "collision", "collision_const", "collision_fill", "collision_fill_names"):
        out.append({"kind": "overrides", "pattern": pat})
    for at in (1, 2, 255, 256, 70000):
        out.append({"kind": "overrides", "pattern": "gap", "at": at})
    for table in ("name", "const", "var"):
        for at in (-1, -2, -256):
            out.append({"kind": "overrides", "pattern": "negative", "table": table, "at": at})
    return out


def recipe_tags(r):
    t = ["kind:" + r["kind"]]
    if r["kind"] == "cells" and r["ncells"] + r["nfrees"] >= 256 and r["nfrees"] and r.get("jump"):
        t.append("freevar-operand-grows-after-layout")
    if r["kind"] == "overrides":
        t.append("pattern:" + r["pattern"])
    return t


def _c03_one(r):
    cd, expect_raise = build(r)
    return c03_check(cd, expect_raise)


@part("C03", "hand_built_codedata")
def c03_hand_built(tier, seed):
    recipes = c03_recipes(tier, seed)
    fails, evals = [], 0
    for r in recipes:
        evals += 1
        try:
            msgs = _c03_one(r)
        except Exception as e:
            import traceback
            fails.append({"checker_error": True, "check": "c03_generator", "unit": repr(r)[:200], "msgs": ["%s: %s" % (type(e).__name__, e), traceback.format_exc()[-600:]]})
            continue
        if msgs and len(fails) < 40:
            fails.append(fail("encoder_says_what_data_says", json.dumps(r)[:160], msgs, r, recipe_tags(r)))
    return result(evals, len(recipes), fails, [json.dumps(recipes[0]), json.dumps(recipes[-1])],
                  "hand-built CodeData without private fields: 2-block jump graphs over NOP paddings %s x {abs back+forward, rel forward}; %d seeded 3-4-block graphs; "
                  "name/const/local tables of 0,1,2,255,256,257%s entries; %d pairwise CPython-distinct constants in several orders; seeded per-instruction line sequences "
                  "(deltas 0,+-1,+-127..129,254,255,+-300,1000; None on 3.10); all Args shapes; cell/free counts up to 300 with jumps; override patterns {consistent, gap, collision}" % (
                      "incl. 32k/65k" if tier == "thorough" else "up to 257", 4000 if tier == "thorough" else 400, ", 65535, 65536, 70000" if tier == "thorough" else "", len(c03_distinct_constants())))


@replayer("C03", "hand_built_codedata")
def c03_replay(rec):
    return _c03_one(rec["recipe"])


# ------------------------------------------------------------------ C03 corpus part: decoded-then-normalized data is 'well-formed data without private fields'
def c03_corpus(code, dec):
    cd, err = dec.get(code)
    if err is not None:
        return decode_failure(code, err)
    n = cd.normalize()
    return c03_check(_shallow(n))


def _shallow(cd):
    return cd


CORPUS_CHECKS["C03"] = [("normalized_data_encodes_faithfully", c03_corpus)]
