"""Concrete replayers for E1 counter-models: harness-name prefix -> function(record) -> {"violated": bool, "observed": ...}.
Abstract map states are repaired to reachable ones (size := |dom|) before the call."""



def _found_index(rec):
    import code_data._blocks as B
    inp = rec.get("inputs") or {}
    n = max(int(inp.get("t_len", 1)), 1)
    found = {int(k): int(v) for k, v in (inp.get("t_found") or {}).items()}
    # repair: a reachable found-map assigns ranks 0..k-1
    found = {k: r for r, k in enumerate(sorted(found, key=lambda k: found[k]))}
    idx = int(inp.get("index", 0))
    table = tuple("v%d" % i for i in range(max(n, idx + 1)))
    t = B.ToArgs(table, dict(found))
    rank = found.get(idx, len(found))
    value, override = t.found_index(idx)
    msgs = []
    if value != table[idx]:
        msgs.append("value %r != table[%d]" % (value, idx))
    if t._index_to_order[idx] != rank:
        msgs.append("recorded order %r != first-use rank %r" % (t._index_to_order[idx], rank))
    if override is not None and rank == idx:
        msgs.append("override %r reported although position == first-use rank %d" % (override, rank))
    if override is None and rank != idx:
        msgs.append("no override although position %d != rank %d" % (idx, rank))
    return {"violated": bool(msgs), "observed": msgs, "call": "ToArgs(%r, %r).found_index(%d)" % (table, found, idx)}


REPLAYERS = {"blocks.ToArgs.found_index": _found_index}
