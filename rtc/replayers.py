"""Concrete replayers for E1 counter-models: harness-name prefix -> function(record) -> {"violated": bool, "observed": ...}.
Abstract map states are repaired to reachable ones (size := |dom|) before the call."""



def _found_index(rec):
    import code_data._blocks as B
    inp = rec.get("inputs") or {}
    n = max(int(inp.get("t_len", 1)), 1)
    found = {int(k): int(v) for k, v in (inp.get("t_found") or {}).items()}
    # repair: a reachable found-map assigns ranks 0..k-1
    found = {k: r for r, k in enumerate(sorted(found, key=lambda k: found[k]))}
    idx = int(inp.get("index", 0))
    table = tuple("v%d" % i for i in range(max(n, idx + 1)))
    t = B.ToArgs(table, dict(found))
    rank = found.get(idx, len(found))
    value, override = t.found_index(idx)
    msgs = []
    if value != table[idx]:
        msgs.append("value %r != table[%d]" % (value, idx))
    if t._index_to_order[idx] != rank:
        msgs.append("recorded order %r != first-use rank %r" % (t._index_to_order[idx], rank))
    if override is not None and rank == idx:
        msgs.append("override %r reported although position == first-use rank %d" % (override, rank))
    if override is None and rank != idx:
        msgs.append("no override although position %d != rank %d" % (idx, rank))
    return {"violated": bool(msgs), "observed": msgs, "call": "ToArgs(%r, %r).found_index(%d)" % (table, found, idx)}


def _flag_word(rec):
    from code_data._flags_data import from_flags_data, to_flags_data
    w = (rec.get("inputs") or {}).get("flag_word")
    if w is None:
        return {"violated": None, "note": "no flag word in the counter-model"}
    word = int(w, 16) if isinstance(w, str) else int(w)
    try:
        fd = to_flags_data(word)
    except Exception as e:
        return {"violated": False, "observed": ["to_flags_data(%#x) raised %s" % (word, type(e).__name__)]}
    back = from_flags_data(set(fd))
    msgs = [] if back == word else ["from_flags_data(to_flags_data(%#x)) == %#x: bits %#x silently dropped" % (word, back, back ^ word)]
    return {"violated": bool(msgs), "observed": msgs, "call": "to_flags_data(%#x)" % word}


def _instrsize(rec):
    import code_data._blocks as B
    a = (rec.get("inputs") or {}).get("arg")
    if a is None:
        return {"violated": None, "note": "no operand in the counter-model"}
    n = B._instrsize(int(a))
    u = int(a) & 0xFFFFFFFF
    want = 1 if u <= 0xFF else 2 if u <= 0xFFFF else 3 if u <= 0xFFFFFF else 4
    return {"violated": n != want, "observed": ["_instrsize(%d) == %r, CPython's instrsize gives %d" % (int(a), n, want)], "call": "_instrsize(%d)" % int(a)}


def _args_from_input(rec):
    import inspect
    import types
    from code_data import CodeData
    inp = rec.get("inputs") or {}
    argc, pos, kw = int(inp.get("argcount", 0)), int(inp.get("posonlyargcount", 0)), int(inp.get("kwonlyargcount", 0))
    h = rec["obligation"]
    va, vk = "VARARGS=1" in h, "VARKEYWORDS=1" in h
    import sys
    if pos and sys.version_info < (3, 8):
        pos = 0
    names = ["p%d" % i for i in range(pos)] + ["a%d" % i for i in range(argc - pos)]
    parts = names[:pos] + (["/"] if pos else []) + names[pos:]
    parts += ["*rest"] if va else (["*"] if kw else [])
    parts += ["k%d" % i for i in range(kw)] + (["**kwargs"] if vk else [])
    src = "def f(%s): pass" % ", ".join(parts)
    code = compile(src, "<replay>", "exec", dont_inherit=True).co_consts[0]
    f = types.FunctionType(code, {})
    want = [(p.name, p.kind.name) for p in inspect.signature(f).parameters.values()]
    got = [(n, k.name) for n, k in CodeData.from_code(code).type.args.parameters.items()]
    return {"violated": got != want, "observed": ["%s: decoded %r, inspect.signature %r" % (src, got, want)], "call": src}


RELAX_SHAPES = {
    "back+fwd-abs": [[("pad", 0), ("jump", 1, False)], [("pad", 1), ("jump", 0, False)], [("pad", 2)]],
    "fwd-rel+back-abs": [[("pad", 0), ("jump", 2, True)], [("pad", 1), ("jump", 0, False)], [("pad", 2)]],
    "two-fwd": [[("jump", 2, False), ("pad", 0), ("jump", 1, True)], [("pad", 1)], [("pad", 2)]],
    "loop-in-if": [[("jump", 2, False), ("pad", 0)], [("pad", 1), ("jump", 1, False), ("jump", 2, True)], [("pad", 2)]],
}


def _relaxation(rec):
    """hand-built CodeData of the harness's jump-graph shape with the counter-model's NOP paddings; oracle: dis on the emitted code"""
    import re
    from code_data import CodeData, Constant, Instruction, Jump
    from . import props2
    props2._load_more()
    from .props4 import c03_check, mk
    m = re.search(r"fixpoint\[([^\]]+)\]", rec["obligation"])
    shape = RELAX_SHAPES.get(m.group(1)) if m else None
    inp = rec.get("inputs") or {}
    if shape is None:
        return {"violated": None, "note": "unknown shape"}
    pads = [max(1, int(inp.get("pad%d" % k, 1))) for k in range(3)]
    if sum(pads) > 400000:
        return {"violated": None, "note": "counter-model too large to materialise (%r)" % pads}
    blocks = []
    for bi, b in enumerate(shape):
        row = []
        for it in b:
            if it[0] == "pad":
                row += [Instruction("NOP", line_number=1)] * pads[it[1]]
            else:
                row.append(Instruction("JUMP_FORWARD" if it[2] else "JUMP_ABSOLUTE", Jump(it[1], it[2]), line_number=1))
        blocks.append(row)
    blocks[-1] += [Instruction("LOAD_CONST", Constant(None), line_number=1), Instruction("RETURN_VALUE", line_number=1)]
    msgs = c03_check(mk(blocks))
    return {"violated": bool(msgs), "observed": msgs, "call": "to_code() of a %s jump graph with NOP paddings %r" % (m.group(1), pads)}


def _num(x, default=0):
    try:
        return int(x)
    except Exception:
        return default


def _expand_items(rec):
    """real expand_items on the counter-model's collapsed entry: cumulative deltas preserved, every entry representable"""
    import code_data._line_mapping as L
    inp = rec.get("inputs") or {}
    is_lt = "linetable" in rec["obligation"]
    noline = "no-line" in rec["obligation"]
    b = max(0, _num(inp.get("bytecode_offset")))
    l = None if noline else _num(inp.get("line_offset"))
    if b > 10 ** 7 or (l is not None and abs(l) > 10 ** 7):
        return {"violated": None, "note": "counter-model too large to materialise"}
    out = L.expand_items([L.CollapsedLineTableItem(l, b)], is_lt)
    msgs = []
    if sum(i.bytecode_offset for i in out) != b:
        msgs.append("bytecode deltas sum to %d, not %d" % (sum(i.bytecode_offset for i in out), b))
    if l is not None and sum(i.line_offset for i in out) != l:
        msgs.append("line deltas sum to %d, not %d" % (sum(i.line_offset for i in out), l))
    for i in out:
        if not (0 <= i.bytecode_offset <= (254 if is_lt else 255)) or not (-128 <= i.line_offset <= 127):
            msgs.append("entry (%d, %d) does not fit its bytes" % (i.bytecode_offset, i.line_offset))
        if is_lt and (i.line_offset == -128) != noline:
            msgs.append("entry (%d, %d): no-line marker %s" % (i.bytecode_offset, i.line_offset, "missing" if noline else "emitted for a lined section"))
    return {"violated": bool(msgs), "observed": msgs[:4], "call": "expand_items([CollapsedLineTableItem(%r, %r)], %r)" % (l, b, is_lt)}


def _pipeline(rec):
    """the harness's assembler-model program with the counter-model's line deltas, through from_code/to_code on a real code object"""
    import re
    import sys
    from . import props2
    props2._load_more()
    from .props3 import _c10_one
    m = re.search(r"lm\.pipeline\[(\w+),b=\(([\d,]+)\)(?:,noline=(\d+)|,no-line)?", rec["obligation"])
    if not m:
        return {"violated": None, "note": "cannot parse the harness name"}
    bs = [int(x) for x in m.group(2).split(",") if x]
    nol = [c == "1" for c in (m.group(3) or ("1" if ",no-line" in rec["obligation"] else "0" * len(bs)))]
    inp = rec.get("inputs") or {}
    prog = [(b, None if nol[k] else _num(inp.get("l%d" % k), 1)) for k, b in enumerate(bs)]
    want_lt = m.group(1) == "linetable"
    if want_lt != (sys.version_info >= (3, 10)):
        return {"violated": None, "note": "format of the harness does not match this interpreter"}
    try:
        msgs = _c10_one(prog, 0 if want_lt else 4)
    except AssertionError as e:
        return {"violated": None, "note": "assembler model precondition: %s" % e}
    return {"violated": bool(msgs), "observed": msgs[:4], "call": "from_code/to_code on the assembler-model table of %r" % (prog,)}


def _to_arg(rec):
    import dis
    import code_data._blocks as B
    inp = rec.get("inputs") or {}
    op, arg, nxt = _num(inp.get("opcode")), _num(inp.get("arg")), _num(inp.get("next_offset"), 2)
    n = arg + 3
    mk = lambda p: B.ToArgs(tuple("%s%d" % (p, i) for i in range(n)))
    try:
        r = B.to_arg(op, arg, nxt, mk("n"), mk("v"), tuple("f%d" % i for i in range(n)), B.ToArgs(("c0",)), mk("k"))
    except Exception as e:
        return {"violated": True, "observed": ["to_arg raised %s: %s" % (type(e).__name__, e)]}
    s = 2 if dis.opname[op] and hasattr(dis, "hasjabs") and __import__("sys").version_info >= (3, 10) else 1
    msgs = []
    if op in dis.hasjabs and not (isinstance(r, B.Jump) and not r.relative and r.target == s * arg):
        msgs.append("absolute jump decoded as %r, CPython jumps to %d" % (r, s * arg))
    if op in dis.hasjrel and not (isinstance(r, B.Jump) and r.relative and r.target == nxt + s * arg):
        msgs.append("relative jump decoded as %r, CPython jumps to %d" % (r, nxt + s * arg))
    if op in dis.hasname and not (isinstance(r, B.Name) and r.name == "n%d" % arg):
        msgs.append("name operand decoded as %r" % (r,))
    if op in dis.haslocal and not (isinstance(r, B.Varname) and r.varname == "v%d" % arg):
        msgs.append("local operand decoded as %r" % (r,))
    if op in dis.hasconst and not (isinstance(r, B.Constant) and r.constant == "k%d" % arg):
        msgs.append("constant operand decoded as %r" % (r,))
    if op in dis.hasfree:
        want = B.Cellvar("c0") if arg < 1 else B.Freevar("f%d" % (arg - 1))
        if type(r) is not type(want) or (getattr(r, "cellvar", None), getattr(r, "freevar", None)) != (getattr(want, "cellvar", None), getattr(want, "freevar", None)):
            msgs.append("cell/free operand %d decoded as %r, CPython uses %r" % (arg, r, want))
    return {"violated": bool(msgs), "observed": msgs, "call": "to_arg(%d, %d, %d, ...)" % (op, arg, nxt)}


def _float_key(rec):
    import struct
    from code_data._constants import constant_key
    inp = rec.get("inputs") or {}

    def fl(x):
        if isinstance(x, dict) and "float_bits" in x:
            return struct.unpack(">d", int(x["float_bits"], 16).to_bytes(8, "big"))[0]
        return float(x) if x not in (None, "nan") else float("nan")
    a, b = fl(inp.get("a")), fl(inp.get("b"))
    same = (a != a and b != b) or struct.pack(">d", a) == struct.pack(">d", b)
    got = constant_key(a) == constant_key(b)
    return {"violated": got != same, "observed": ["constant_key(%r) == constant_key(%r) is %r; bit-equal modulo NaN is %r" % (a, b, got, same)]}


REPLAYERS = {"blocks.relaxation_loop": _relaxation, "lm.expand_items": _expand_items, "lm.pipeline": _pipeline, "blocks.to_arg": _to_arg,
             "constants.constant_key.float": _float_key, "blocks.ToArgs.found_index": _found_index, "flags.": _flag_word, "blocks._instrsize": _instrsize, "args.args_from_input": _args_from_input}
