"""Concrete replayers for E1 counter-models: harness-name prefix -> function(record) -> {"violated": bool, "observed": ...}.
Abstract map states are repaired to reachable ones (size := |dom|) before the call."""



def _found_index(rec):
    import code_data._blocks as B
    inp = rec.get("inputs") or {}
    n = max(int(inp.get("t_len", 1)), 1)
    found = {int(k): int(v) for k, v in (inp.get("t_found") or {}).items()}
    # repair: a reachable found-map assigns ranks 0..k-1
    found = {k: r for r, k in enumerate(sorted(found, key=lambda k: found[k]))}
    idx = int(inp.get("index", 0))
    table = tuple("v%d" % i for i in range(max(n, idx + 1)))
    t = B.ToArgs(table, dict(found))
    rank = found.get(idx, len(found))
    value, override = t.found_index(idx)
    msgs = []
    if value != table[idx]:
        msgs.append("value %r != table[%d]" % (value, idx))
    if t._index_to_order[idx] != rank:
        msgs.append("recorded order %r != first-use rank %r" % (t._index_to_order[idx], rank))
    if override is not None and rank == idx:
        msgs.append("override %r reported although position == first-use rank %d" % (override, rank))
    if override is None and rank != idx:
        msgs.append("no override although position %d != rank %d" % (idx, rank))
    return {"violated": bool(msgs), "observed": msgs, "call": "ToArgs(%r, %r).found_index(%d)" % (table, found, idx)}


def _flag_word(rec):
    from code_data._flags_data import from_flags_data, to_flags_data
    w = (rec.get("inputs") or {}).get("flag_word")
    if w is None:
        return {"violated": None, "note": "no flag word in the counter-model"}
    word = int(w, 16) if isinstance(w, str) else int(w)
    try:
        fd = to_flags_data(word)
    except Exception as e:
        return {"violated": False, "observed": ["to_flags_data(%#x) raised %s" % (word, type(e).__name__)]}
    back = from_flags_data(set(fd))
    msgs = [] if back == word else ["from_flags_data(to_flags_data(%#x)) == %#x: bits %#x silently dropped" % (word, back, back ^ word)]
    return {"violated": bool(msgs), "observed": msgs, "call": "to_flags_data(%#x)" % word}


def _instrsize(rec):
    import code_data._blocks as B
    a = (rec.get("inputs") or {}).get("arg")
    if a is None:
        return {"violated": None, "note": "no operand in the counter-model"}
    n = B._instrsize(int(a))
    u = int(a) & 0xFFFFFFFF
    want = 1 if u <= 0xFF else 2 if u <= 0xFFFF else 3 if u <= 0xFFFFFF else 4
    return {"violated": n != want, "observed": ["_instrsize(%d) == %r, CPython's instrsize gives %d" % (int(a), n, want)], "call": "_instrsize(%d)" % int(a)}


def _args_from_input(rec):
    import inspect
    import types
    from code_data import CodeData
    inp = rec.get("inputs") or {}
    argc, pos, kw = int(inp.get("argcount", 0)), int(inp.get("posonlyargcount", 0)), int(inp.get("kwonlyargcount", 0))
    h = rec["obligation"]
    va, vk = "VARARGS=1" in h, "VARKEYWORDS=1" in h
    import sys
    if pos and sys.version_info < (3, 8):
        pos = 0
    names = ["p%d" % i for i in range(pos)] + ["a%d" % i for i in range(argc - pos)]
    parts = names[:pos] + (["/"] if pos else []) + names[pos:]
    parts += ["*rest"] if va else (["*"] if kw else [])
    parts += ["k%d" % i for i in range(kw)] + (["**kwargs"] if vk else [])
    src = "def f(%s): pass" % ", ".join(parts)
    code = compile(src, "<replay>", "exec", dont_inherit=True).co_consts[0]
    f = types.FunctionType(code, {})
    want = [(p.name, p.kind.name) for p in inspect.signature(f).parameters.values()]
    got = [(n, k.name) for n, k in CodeData.from_code(code).type.args.parameters.items()]
    return {"violated": got != want, "observed": ["%s: decoded %r, inspect.signature %r" % (src, got, want)], "call": src}


RELAX_SHAPES = {
    "back+fwd-abs": [[("pad", 0), ("jump", 1, False)], [("pad", 1), ("jump", 0, False)], [("pad", 2)]],
    "fwd-rel+back-abs": [[("pad", 0), ("jump", 2, True)], [("pad", 1), ("jump", 0, False)], [("pad", 2)]],
    "two-fwd": [[("jump", 2, False), ("pad", 0), ("jump", 1, True)], [("pad", 1)], [("pad", 2)]],
    "loop-in-if": [[("jump", 2, False), ("pad", 0)], [("pad", 1), ("jump", 1, False), ("jump", 2, True)], [("pad", 2)]],
}


def _relaxation(rec):
    """hand-built CodeData of the harness's jump-graph shape with the counter-model's NOP paddings; oracle: dis on the emitted code"""
    import re
    from code_data import CodeData, Constant, Instruction, Jump
    from . import props2
    props2._load_more()
    from .props4 import c03_check, mk
    m = re.search(r"fixpoint\[([^\]]+)\]", rec["obligation"])
    shape = RELAX_SHAPES.get(m.group(1)) if m else None
    inp = rec.get("inputs") or {}
    if shape is None:
        return {"violated": None, "note": "unknown shape"}
    pads = [max(1, int(inp.get("pad%d" % k, 1))) for k in range(3)]
    if sum(pads) > 400000:
        return {"violated": None, "note": "counter-model too large to materialise (%r)" % pads}
    blocks = []
    for bi, b in enumerate(shape):
        row = []
        for it in b:
            if it[0] == "pad":
                row += [Instruction("NOP", line_number=1)] * pads[it[1]]
            else:
                row.append(Instruction("JUMP_FORWARD" if it[2] else "JUMP_ABSOLUTE", Jump(it[1], it[2]), line_number=1))
        blocks.append(row)
    blocks[-1] += [Instruction("LOAD_CONST", Constant(None), line_number=1), Instruction("RETURN_VALUE", line_number=1)]
    msgs = c03_check(mk(blocks))
    return {"violated": bool(msgs), "observed": msgs, "call": "to_code() of a %s jump graph with NOP paddings %r" % (m.group(1), pads)}


REPLAYERS = {"blocks.relaxation_loop": _relaxation, "blocks.ToArgs.found_index": _found_index, "flags.": _flag_word, "blocks._instrsize": _instrsize, "args.args_from_input": _args_from_input}
