"""Input-class tags for known findings.  A tag is computed from the *input* (and from which attributes differ), never from
library internals, so that a different violation of the same property is still reported (see /verif/known_findings.json)."""
import dis
import sys

PY310 = sys.version_info >= (3, 10)


def first_unit_offsets(code):
    out, first = set(), None
    for i in range(0, len(code.co_code), 2):
        if first is None:
            first = i
        if code.co_code[i] != dis.EXTENDED_ARG:
            out.add(first)
            first = None
    return out


def input_tags(code):
    tags = []
    if not PY310:
        firsts = first_unit_offsets(code)
        addr = 0
        tab = code.co_lnotab
        for i in range(0, len(tab), 2):
            addr += tab[i]
            if addr < len(code.co_code) and addr not in firsts:
                tags.append("lnotab-entry-inside-extended-arg-instruction")
                break
    if _surrogate_outside_constants(code):
        tags.append("lone-surrogate-string-outside-constants")
    try:
        import __future__
        if code.co_flags & __future__.barry_as_FLUFL.compiler_flag:
            tags.append("flag:barry_as_FLUFL")
    except Exception:
        pass
    if code.co_flags & 0x3A0 and (code.co_flags & 3) != 3:
        tags.append("flag:generator-kind-outside-function")
    return tags


def failure_tags(msgs):
    """which attributes differ, read off the messages of oracle.code_diff"""
    attrs = set()
    for m in msgs:
        head = m.split(":", 1)[0]
        if "." in head and " " not in head.rsplit(".", 1)[1]:
            attrs.add(head.rsplit(".", 1)[1].split("[")[0])
    if attrs:
        return ["diff-only:" + "+".join(sorted(attrs))]
    return []


def _lone(s):
    if not isinstance(s, str):
        return False
    try:
        s.encode("utf-8")
        return False
    except UnicodeEncodeError:
        return True


def _surrogate_outside_constants(code):
    """a string with a lone surrogate at a position other than a constant: names, locals, cells, frees, file name, code name, or the
    docstring slot of a function - in this code object or any nested one (their JSON is part of the parent's document)"""
    strs = (code.co_name, code.co_filename) + code.co_names + code.co_varnames + code.co_freevars + code.co_cellvars
    if any(_lone(s) for s in strs):
        return True
    if (code.co_flags & 3) == 3 and code.co_consts and _lone(code.co_consts[0]):
        return True
    return any(_surrogate_outside_constants(c) for c in code.co_consts if hasattr(c, "co_code"))
