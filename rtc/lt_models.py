"""Transcriptions of CPython's line-table assemblers (Python/compile.c), used as oracles for C10.

lnotab (3.7-3.9): `assemble_lnotab`; input = events (d_bytecode, d_lineno) = one per instruction whose line differs
from the running line (3.7/3.8 skip an event iff both deltas are 0; 3.9 skips iff d_lineno == 0).
linetable (3.10): `assemble_line_range`; input = sections (n_bytes, line delta or None) = maximal runs of instructions
with the same line; adjacent sections differ in line.
Validated against the real compiler by rtc/props3.py (c10_validate_models).
"""


def asm_lnotab(events):
    out = []
    for b, l in events:
        if b > 255:
            n = b // 255
            out += [(255, 0)] * n
            b -= n * 255
        if l < -128 or l > 127:
            if l < 0:
                k = -128
                n = (-l) // 128
            else:
                k = 127
                n = l // 127
            l -= n * k
            out.append((b, k))
            b = 0
            out += [(0, k)] * (n - 1)
        out.append((b, l))
    return out


def asm_linetable(sections):
    out = []
    for b, l in sections:
        if b == 0:
            continue
        if l is None:
            ld = -128
        else:
            ld = l
            while ld > 127:
                out.append((0, 127))
                ld -= 127
            while ld < -127:
                out.append((0, -127))
                ld += 127
        while b > 254:
            out.append((254, ld))
            ld = -128 if l is None else 0
            b -= 254
        out.append((b, ld))
    return out


def to_bytes(pairs):
    return bytes(x for b, l in pairs for x in (b, l & 255))


def read_lnotab(events, total, first):
    """line of every even offset < total under PyCode_Addr2Line, from the abstract events"""
    marks = []
    addr, line = 0, first
    for b, l in events:
        addr += b
        line += l
        marks.append((addr, line))
    res = {}
    for o in range(0, total, 2):
        cur = first
        for a, ln in marks:
            if a <= o:
                cur = ln
            else:
                break
        res[o] = cur
    return res


def read_linetable(sections, first):
    res = {}
    off, line = 0, first
    for b, l in sections:
        if l is not None:
            line += l
        for o in range(off, off + b, 2):
            res[o] = None if l is None else line
        off += b
    return res
