"""More property-specific bounded checks (E3): C10 line-table codec vs assembler models, C08 value semantics, C16 CLI."""
import dataclasses
import dis
import io
import itertools
import json
import os
import random
import re
import subprocess
import sys
import types

from code_data import (AdditionalLine, Args, Cellvar, CodeData, Constant, Freevar, Function, Instruction, Jump, Name, NoArg, Varname)

from .props import decode_failure  # noqa: E402
from . import gen, lt_models, oracle
from .props2 import PY38, PY310, code_replace, fail, part, replayer, result

# =========================================================================================== C10
L_SET = [1, -1, 2, 126, 127, 128, 129, -126, -127, -128, -129, -130, 253, 254, 255, 256, 257, -254, -255, -256, -257, 381, 382, -384, -385]
L_SMALL = [1, -1, 127, 128, -127, -128, -129, 254, 255, -256]
B_SET = [2, 4, 252, 254, 256, 258, 508, 510, 512, 764, 766]
B_SMALL = [2, 254, 256, 510]
FIRST = 5000
NOP, RET = dis.opmap["NOP"], dis.opmap["RETURN_VALUE"]
_BASE = compile("pass", "<c10>", "exec", dont_inherit=True)


def _c10_code(table, total):
    code = bytes([NOP, 0] * (total // 2 - 1) + [RET, 0])
    kw = {"co_code": code, "co_firstlineno": FIRST}
    kw["co_linetable" if PY310 else "co_lnotab"] = table
    return code_replace(_BASE, **kw)


def _c10_one(prog, extra_tail):
    """prog: list of (byte delta, line delta | None).  Returns messages (violations), raises AssertionError on oracle inconsistency."""
    if PY310:
        pairs = lt_models.asm_linetable(prog)
        total = sum(b for b, l in prog)
        want = lt_models.read_linetable(prog, FIRST)
    else:
        pairs = lt_models.asm_lnotab(prog)
        total = sum(b for b, l in prog) + extra_tail
        if total == 0:
            total = 2
        want = lt_models.read_lnotab(prog, total, FIRST)
    if total == 0:
        return []
    table = lt_models.to_bytes(pairs)
    c = _c10_code(table, total)
    cpy = oracle.cpython_line_of_offsets(c)
    if cpy != want:
        raise AssertionError("oracle inconsistency: CPython reads %r, model reading %r for %r" % (sorted(cpy.items())[:4], sorted(want.items())[:4], prog))
    msgs = []
    try:
        cd = CodeData.from_code(c)
    except Exception as e:
        return ["from_code raised %s: %s on table %r" % (type(e).__name__, e, list(table))]
    k = 0
    for block in cd.blocks:
        for ins in block:
            if ins.line_number != cpy[2 * k]:
                msgs.append("offset %d: decoded line %r, CPython assigns %r" % (2 * k, ins.line_number, cpy[2 * k]))
                break
            k += 1
        if msgs:
            break
    try:
        back = cd.to_code()
        got = back.co_linetable if PY310 else back.co_lnotab
        if got != table:
            msgs.append("re-encoded table %r != %r" % (list(got), list(table)))
    except Exception as e:
        msgs.append("to_code raised %s: %s" % (type(e).__name__, e))
    return msgs


def _legal(prog):
    """preconditions of the assembler models"""
    if PY310:
        for i, (b, l) in enumerate(prog):
            if b <= 0 or b % 2:
                return False
            if i > 0:
                pb, pl = prog[i - 1]
                if l is None and pl is None:
                    return False          # adjacent sections differ in line
                if l == 0 and pl is not None:
                    return False          # a lined section after a lined one has a non-zero delta (after a no-line section 0 is legal)
        return True
    ver39 = sys.version_info >= (3, 9)
    for i, (b, l) in enumerate(prog):
        if l is None or b % 2 or b < 0:
            return False
        if b == 0 and i > 0 and l == 0:
            return False                  # instructions are at least one code unit apart; an entry of zero width after the first comes from instructions the
                                          # optimizer removed (3.7-3.9 drop unreachable code after a return and keep its line events): it has a line delta
        if ver39 and l == 0:
            return False
        if not ver39 and l == 0 and b == 0:
            return False
    return True


def _c10_programs(tier, seed):
    full = tier == "thorough"
    rnd = random.Random(seed)
    Ls = list(L_SET) + ([None, 0] if PY310 else [0])
    Lsm = list(L_SMALL) + ([None, 0] if PY310 else [0])
    B0 = ([0] if not PY310 else [])
    progs = []
    for b in B_SET + B0:
        for l in Ls:
            progs.append([(b, l)])
    two_b, two_l = (B_SET, Ls) if full else (B_SMALL, Lsm)
    for b1, l1, b2, l2 in itertools.product(two_b + B0, two_l, two_b + B0, two_l):
        progs.append([(b1, l1), (b2, l2)])
    if not PY310:     # zero-width events right after an entry that sits exactly on a splitting boundary, in both directions
        for b1, l1, l2 in itertools.product([2, 254, 256], [127, -128, 254, -256, 126, -127, 128, -129], [-5, 5, -128, 127, 1, -1, -200, 200]):
            progs.append([(b1, l1), (0, l2)])
            progs.append([(b1, l1), (0, l2), (0, -l2 if l2 != -128 else 3)])
            progs.append([(2, 1), (b1, l1), (0, l2), (4, 1)])
    n3 = 20000 if full else 1500
    for _ in range(n3):
        n = rnd.choice([3, 3, 4])
        progs.append([(rnd.choice(B_SET + (B0 if (i == 0 or rnd.random() < 0.25) else [])), rnd.choice(Ls)) for i in range(n)])
    return [p for p in progs if _legal(p)]


@part("C10", "assembler_models")
def c10_models(tier, seed):
    progs = _c10_programs(tier, seed)
    fails, evals = [], 0
    for prog in progs:
        for tail in ((0,) if PY310 else (0, 4)):
            evals += 1
            try:
                msgs = _c10_one(prog, tail)
            except AssertionError as e:
                fails.append({"checker_error": True, "check": "c10_model_oracle", "unit": repr(prog), "msgs": [str(e)]})
                continue
            if msgs and len(fails) < 40:
                tags = []
                if PY310:
                    tags = ["has-no-line-section"] if any(l is None for b, l in prog) else ["lined-only"]
                fails.append(fail("linetable_codec_vs_assembler", "prog:%r tail=%d" % (prog, tail), msgs, {"prog": prog, "tail": tail}, tags))
    fmt = "co_linetable (3.10)" if PY310 else "co_lnotab (%s rule)" % ("3.9: skip iff line delta 0" if sys.version_info >= (3, 9) else "3.7/3.8: skip iff both deltas 0")
    bound = ("%s; programs: all 1-entry over B=%r x L=%r(+None/0 where legal); 2-entry over %s; %d seeded 3-4-entry programs; "
             "lnotab also with the last entry at the end of the code (trailing entry) and 4 bytes before it") % (
        fmt, B_SET, L_SET, "B x L full" if tier == "thorough" else "B=%r x L=%r" % (B_SMALL, L_SMALL), 20000 if tier == "thorough" else 1500)
    return result(evals, len(progs), fails, [repr(p) for p in progs[:2] + progs[-2:]], bound)


@replayer("C10", "assembler_models")
def c10_models_replay(rec):
    r = rec["recipe"]
    return _c10_one([tuple(x) for x in r["prog"]], r["tail"])


@part("C10", "validate_models_against_compiler")
def c10_validate(tier, seed):
    """The oracle transcriptions themselves: on 3.10 the model must reproduce co_linetable from co_lines() for every corpus code
    object; before 3.10 every co_lnotab must segment into chunks the model can emit.  A mismatch is a checker error."""
    units = gen.corpus(tier, seed, ("g1", "g2", "g3", "g4"))
    fails, evals = [], 0
    for uid, top, rec in units:
        for path, c in gen.walk_code(top):
            evals += 1
            if PY310:
                secs, prev = [], c.co_firstlineno
                for start, end, line in c.co_lines():
                    if line is None:
                        secs.append((end - start, None))
                    else:
                        secs.append((end - start, line - prev))
                        prev = line
                if lt_models.to_bytes(lt_models.asm_linetable(secs)) != c.co_linetable:
                    fails.append({"checker_error": True, "check": "c10_model_vs_compiler", "unit": uid, "msgs": ["3.10 assembler model does not reproduce co_linetable of %s%r" % (uid, list(path))]})
            else:
                tab = c.co_lnotab
                pairs = [(tab[i], tab[i + 1] - 256 if tab[i + 1] >= 128 else tab[i + 1]) for i in range(0, len(tab), 2)]
                # re-assemble: group into events by undoing the splitting rules, then emit again
                events, i = [], 0
                while i < len(pairs):
                    b, l = pairs[i]
                    i += 1
                    while b % 255 == 0 and b // 255 >= 0 and pairs[i - 1] == (255, 0) and i < len(pairs):
                        nb, nl = pairs[i]
                        b += nb
                        l = nl
                        i += 1
                        if (nb, nl) != (255, 0):
                            break
                    while l in (127, -128) and i < len(pairs) and pairs[i][0] == 0 and ((l > 0) == (pairs[i][1] >= 0)):
                        l += pairs[i][1]
                        i += 1
                        if pairs[i - 1][1] not in (127, -128):
                            break
                    events.append((b, l))
                if lt_models.to_bytes(lt_models.asm_lnotab(events)) != tab and len(fails) < 5:
                    # segmentation is heuristic (several event lists can give one table): only report when no grouping reproduces it
                    if lt_models.to_bytes(lt_models.asm_lnotab(pairs)) != tab:
                        fails.append({"checker_error": True, "check": "c10_model_vs_compiler", "unit": uid,
                                      "msgs": ["lnotab model cannot reproduce co_lnotab of %s%r" % (uid, list(path))]})
    return result(evals, evals, fails, [], "every code object of the corpus (G1-G4)")


# =========================================================================================== C08
def _nan2():
    import struct
    return struct.unpack(">d", bytes.fromhex("fff8000000000001"))[0]


def c08_values():
    nan1, nan2 = float("nan"), _nan2()
    inf = float("inf")
    base = [None, Ellipsis, True, False, 0, 1, -1, 2 ** 53 - 1, 2 ** 53, 2 ** 64, -2 ** 64, 10 ** 30, 0.0, -0.0, 1.0, inf, -inf, nan1, nan2, 1e308, 5e-324,
            0j, complex(0.0, -0.0), complex(-0.0, 0.0), complex(-0.0, -0.0), 1j, complex(1, 0), complex(nan1, 0), complex(0, nan2), complex(nan2, nan1), complex(inf, -inf),
            "", "a", "\ud800", "1", b"", b"a", b"1"]
    vals = list(base)
    for v in base:
        vals.append((v,))
        vals.append(frozenset([v]))
    for v in base[:22]:
        vals.append(((v,),))
        vals.append((frozenset([v]),))
        vals.append((v, (v, (v,))))
        vals.append(frozenset([(v,)]))
    vals += [(), frozenset(), (1, 2), (1.0, 2), (True, 2), (1, 2.0), frozenset([1, 2]), frozenset([1.0, 2]), (0, 0.0, -0.0, False), (nan1, nan2), (nan2, nan1)]
    return vals


def _mk_nan_copy(v):
    """a structurally identical value built from fresh objects (so object identity differs, as it does across routes)"""
    if isinstance(v, float):
        return float(repr(v)) if v == v else float("nan")
    if isinstance(v, complex):
        return complex(_mk_nan_copy(v.real), _mk_nan_copy(v.imag))
    if isinstance(v, tuple):
        return tuple(_mk_nan_copy(x) for x in v)
    if isinstance(v, frozenset):
        return frozenset(_mk_nan_copy(x) for x in v)
    return v


@part("C08", "constant_pairs")
def c08_constant_pairs(tier, seed):
    vals = c08_values()
    keys = []
    for v in vals:
        try:
            keys.append(oracle.constant_partition_key(v))
        except Exception as e:
            keys.append(("nokey", repr(v)))
    consts = [Constant(v) for v in vals]
    copies = [Constant(_mk_nan_copy(v)) for v in vals]
    fails, evals = [], 0

    def add(what, i, j):
        if len(fails) < 30:
            fails.append(fail("value_semantics", "pair:%d,%d" % (i, j), [what + ": %r vs %r" % (vals[i], vals[j])], {"i": i, "j": j}))
    for i, a in enumerate(consts):
        evals += 1
        try:
            ha = hash(a)
        except Exception as e:
            add("Constant is not hashable (%s)" % e, i, i)
            continue
        b = copies[i]
        if not (a == b and b == a):
            add("equality is not reflexive across separately built equal values", i, i)
        elif hash(b) != ha:
            add("equal Constants have different hashes (a == b but hash(a) != hash(b))", i, i)
        elif b not in {a} or a not in {b: 1}:
            add("set/dict membership fails for an equal Constant", i, i)
        try:
            a.constant = 1
            add("attribute reassignment did not raise", i, i)
        except dataclasses.FrozenInstanceError:
            pass
        except Exception as e:
            add("attribute reassignment raised %s instead of FrozenInstanceError" % type(e).__name__, i, i)
    # the position override is part of the value: same constant object, different override -> different; equal override -> equal + same hash
    for i, v in enumerate(vals):
        evals += 1
        for ova, ovb in ((None, 0), (0, 1), (2, None)):
            x, y = Constant(v, ova), Constant(v, ovb)
            if x == y or y == x:
                add("Constants with different position overrides (%r, %r) compare equal" % (ova, ovb), i, i)
                break
        x, y = Constant(v, 3), Constant(_mk_nan_copy(v), 3)
        if not (x == y) or hash(x) != hash(y):
            add("Constants with the same override and equal constant are unequal or hash differently", i, i)
    n = len(vals)
    pairs = itertools.combinations(range(n), 2)
    for i, j in pairs:
        evals += 1
        a, b = consts[i], consts[j]
        eq = a == b
        if eq != (b == a):
            add("equality is not symmetric", i, j)
        want = keys[i] == keys[j]
        if eq != want:
            add("Constant equality %r but CPython's constant table %s them (with all NaNs identified)" % (eq, "merges" if want else "distinguishes"), i, j)
        if eq and hash(a) != hash(b):
            add("equal Constants have different hashes", i, j)
    return result(evals, n, fails, [repr(vals[3]), repr(vals[-1])], "%d constant values (edge scalars x nesting {bare, tuple, frozenset, depth 2-3}) and all %d unordered pairs; reference partition = ctypes _PyCode_ConstantKey with NaNs identified" % (n, n * (n - 1) // 2))


@replayer("C08", "constant_pairs")
def c08_pairs_replay(rec):
    vals = c08_values()
    i, j = rec["recipe"]["i"], rec["recipe"]["j"]
    a, b = Constant(vals[i]), Constant(_mk_nan_copy(vals[j]))
    msgs = []
    if i == j:
        if not (a == b):
            msgs.append("not reflexive")
        elif hash(a) != hash(b):
            msgs.append("equal Constants have different hashes: %r" % (vals[i],))
    else:
        want = oracle.constant_partition_key(vals[i]) == oracle.constant_partition_key(vals[j])
        if (a == b) != want:
            msgs.append("equality %r, reference partition %r" % (a == b, want))
        if a == b and hash(a) != hash(b):
            msgs.append("equal Constants have different hashes")
    return msgs


C08_SOURCES = ["x = %s\n", "def f():\n    return %s\n", "def f(a=%s):\n    '''d'''\n    return a\n", "def f(x):\n    if x:\n        return %s\n",
               "def outer():\n    def inner():\n        return %s\n    return lambda: inner\n"]
C08_EXPRS = ["1", "1.0", "True", "0.0", "-0.0", "'a'", "b'a'", "(1, 2.0)", "1e999 - 1e999", "(1e999 - 1e999, 1)", "1j", "-0.0j", "(0.0, -0.0)", "x in {1, 2.0}", "..."]


@part("C08", "codedata_routes")
def c08_routes(tier, seed):
    """CodeData values of the same program obtained by different routes: decode twice (separate compile), JSON load, normalize"""
    fails, evals = [], 0
    datas = []
    for tmpl in C08_SOURCES:
        for ex in C08_EXPRS:
            src = tmpl % ex
            try:
                c1 = compile(src, "<c08>", "exec", dont_inherit=True)
                c2 = compile(src, "<c08>", "exec", dont_inherit=True)
            except SyntaxError:
                continue
            for (p1, a), (p2, b) in zip(gen.walk_code(c1), gen.walk_code(c2)):
                evals += 1
                msgs = []
                try:
                    d1, d2 = CodeData.from_code(a), CodeData.from_code(b)
                    d3 = CodeData.from_json_data(json.loads(json.dumps(d1.to_json_data())))
                    routes = [("decode", d1), ("decode-again", d2), ("json", d3)]
                    n1, n3 = d1.normalize(), d3.normalize()
                    routes2 = [("normalize", n1), ("json-normalize", n3)]
                    # values that share constant objects but differ (override information dropped by normalize): eq and hash must agree
                    for (ra, x), (rb, y) in itertools.product(routes, routes2):
                        try:
                            if x == y and hash(x) != hash(y):
                                msgs.append("%s == %s but hashes differ" % (ra, rb))
                            if x == y and oracle.code_diff(x.to_code(), y.to_code()):
                                msgs.append("%s == %s but they encode to different code objects" % (ra, rb))
                            if (x == y) != (y == x):
                                msgs.append("equality of %s and %s is not symmetric" % (ra, rb))
                        except TypeError as e:
                            msgs.append("hash raised %s" % e)
                    for group in (routes, routes2):
                        for (ra, x), (rb, y) in itertools.combinations(group, 2):
                            if not (x == y and y == x):
                                msgs.append("%s != %s for the same program" % (ra, rb))
                                continue
                            try:
                                if hash(x) != hash(y):
                                    msgs.append("%s == %s but hashes differ" % (ra, rb))
                                if y not in {x}:
                                    msgs.append("%s not found in a set holding the equal %s value" % (rb, ra))
                            except TypeError as e:
                                msgs.append("%s value is not hashable: %s" % (ra, e))
                            dd = oracle.code_diff(x.to_code(), y.to_code())
                            if dd:
                                msgs.append("equal CodeData (%s, %s) encode to different code: %s" % (ra, rb, dd[0]))
                    try:
                        d1.blocks = ()
                        msgs.append("CodeData attribute reassignment did not raise")
                    except dataclasses.FrozenInstanceError:
                        pass
                    datas.append((src, d1))
                except Exception as e:
                    msgs.append("route raised %s: %s" % (type(e).__name__, e))
                if msgs:
                    fails.append(fail("value_semantics_routes", "src:%r%r" % (src, list(p1)), msgs, {"source": src, "path": list(p1)}))
    # different programs: equal CodeData must encode to identical code; never equal with different hash
    for (s1, x), (s2, y) in itertools.combinations(datas, 2):
        evals += 1
        try:
            if x == y:
                if hash(x) != hash(y):
                    fails.append(fail("value_semantics_routes", "pair", ["equal CodeData of %r and %r hash differently" % (s1, s2)], {"source": s1, "path": []}))
                elif oracle.code_diff(x.to_code(), y.to_code()):
                    fails.append(fail("value_semantics_routes", "pair", ["equal CodeData of %r and %r encode to different code" % (s1, s2)], {"source": s1, "path": []}))
        except Exception as e:
            fails.append(fail("value_semantics_routes", "pair", ["comparison raised %s: %s" % (type(e).__name__, e)], {"source": s1, "path": []}))
    return result(evals, len(datas), fails[:30], [s for s, _ in datas[:2]], "%d templates x %d constant expressions, every nested code object, routes {decode, decode of a separate compile, JSON load, normalize}; all pairs of the resulting values" % (len(C08_SOURCES), len(C08_EXPRS)))


# =========================================================================================== C16
C16_PROGRAMS = ["x = 1", "def f(a, *b, c=1):\\n    return a", "import os\\nprint(os.sep)", "class A:\\n    '''doc'''\\n    def m(self): return 1",
                "y = [i for i in range(3)]", "async def f():\\n    yield 1", "lambda: (1, 2.0, 'a', b'b', None, ...)", "x = 1e999 - 1e999",
                "while a:\\n    a -= 1", "try:\\n    pass\\nfinally:\\n    z = 2", "", "pass",
"greeting = 'h\u00e9llo w\u00f6rld \u4e16\u754c'", "p = 'C:\\\\temp\\\\x' + '\\'' + \"\\t\"", "@staticmethod\\ndef deco(): pass", "x = 1\\n\x0c\\ny = 'a\x0cb'\\nz = 3"]


def _cli(args, cwd=None):
    env = dict(os.environ)
    cmd = [sys.executable, "-c", "import sys; sys.argv[0]='python-code-data'; from code_data._cli import main; main()"] + args
    p = subprocess.run(cmd, env=env, stdout=subprocess.PIPE, stderr=subprocess.PIPE, universal_newlines=True, cwd=cwd, timeout=120)
    return p.returncode, p.stdout, p.stderr


def _api_text(source, filename, normalize, want_json):
    code = compile(source, filename, "exec", dont_inherit=True)
    cd = CodeData.from_code(code)
    if normalize:
        cd = cd.normalize()
    out = repr(cd) + "\n"
    if want_json:
        out += json.dumps(cd.to_json_data(), indent=2, ensure_ascii=False) + "\n"
    return cd, out


def _dis_names(text):
    return re.findall(r"^\s*(?:\d+\s+)?(?:>>\s+)?\d+\s+([A-Z][A-Z_0-9+]*)\b", text, re.M)


# program texts given through -e / a file exactly as they are (a backslash followed by n inside a literal stays what it is)
C16_RAW_PROGRAMS = ['greeting = "hello\\nworld"\nprint(greeting)\n', "pattern = r'\\n|\\t'\nx = len(pattern)\n"]


def _c16_case(kind, prog, flags, tmpdir, raw=False):
    """returns messages"""
    msgs = []
    real_src = prog if raw else prog.replace("\\n", "\n")
    if kind == "c":
        args, fn = ["-c", prog], "<string>"
    elif kind == "e":
        args, fn = ["-e", repr(real_src)], "<string>"
    elif kind == "file":
        path = os.path.join(tmpdir, "prog_%d.py" % (abs(hash(prog)) % 10 ** 6))
        with open(path, "w") as f:
            f.write(real_src)
        args, fn = [path], path
    else:
        raise ValueError(kind)
    rc, out, err = _cli(args + flags)
    if rc != 0:
        return ["exit status %d for a valid program (%s %r %s): %s" % (rc, kind, prog, flags, err.strip()[-200:])]
    cd, want = _api_text(real_src, fn, "--no-normalize" not in flags, "--json" in flags)
    plain = [f for f in flags if f in ("--dis", "--dis-after", "--source")]
    if not plain:
        if out != want:
            msgs.append("stdout differs from the API result: %r != %r" % (out[:200], want[:200]))
        if "--json" in flags and not msgs:
            doc = json.loads(out.split("\n", 1)[1])
            if CodeData.from_json_data(doc) != cd:
                msgs.append("--json document does not load back to the printed CodeData")
    else:
        if repr(cd) not in out:
            msgs.append("the CodeData repr of the API result does not occur in stdout")
    return msgs


def _c16_module_dis(mod):
    rc1, out1, err1 = _cli(["-m", mod, "--dis"])
    rc2, out2, err2 = _cli(["-m", mod, "--dis-after"])
    if rc1 or rc2:
        return ["exit status %d/%d" % (rc1, rc2)]
    a = [n for n in _dis_names(out1) if n != "EXTENDED_ARG"]
    b = [n for n in _dis_names(out2) if n != "EXTENDED_ARG"]
    if a != b or not a:
        return ["--dis-after shows %d instructions, --dis shows %d; first difference at %s" % (len(b), len(a), next((i for i, (x, y) in enumerate(zip(a, b)) if x != y), min(len(a), len(b))))]
    return []


def _c16_module(mod, flags):
    """what `-m mod` prints is the API's result for the code of the module that was named (not run, not replaced by another module)"""
    import importlib.util
    spec = importlib.util.find_spec(mod)
    code = spec.loader.get_code(mod)
    cd = CodeData.from_code(code)
    if "--no-normalize" not in flags:
        cd = cd.normalize()
    want = repr(cd) + "\n"
    if "--json" in flags:
        want += json.dumps(cd.to_json_data(), indent=2, ensure_ascii=False) + "\n"
    rc, out, err = _cli(["-m", mod] + flags)
    if rc != 0:
        return ["exit status %d for -m %s: %s" % (rc, mod, err.strip()[-200:])]
    if out != want:
        i = next((k for k, (x, y) in enumerate(zip(out, want)) if x != y), min(len(out), len(want)))
        return ["-m %s prints something else than the API's result for the code of %s (%s): first difference at char %d: %r vs %r" % (mod, mod, code.co_filename, i, out[i:i + 80], want[i:i + 80])]
    return []


@part("C16", "cli_subprocess")
def c16_cli(tier, seed):
    import tempfile
    fails, evals = [], 0
    tmpdir = tempfile.mkdtemp(prefix="pcv-c16-")
    try:
        # usage errors: zero or several sources
        path = os.path.join(tmpdir, "p.py")
        with open(path, "w") as f:
            f.write("x = 1\n")
        for args, expect_ok in [([], False), (["-c", "x=1", "-e", "'x=1'"], False), ([path, "-c", "x=1"], False), (["-c", "x=1", "-m", "json"], False),
                                ([path, "-m", "json"], False), (["-c", "x=1"], True), (["-e", "'x=1'"], True), ([path], True), (["-m", "json.tool"], True),
                                (["-c", ""], True), (["-e", "''"], True), (["-c", "", "-e", "''"], False), (["-c", "", path], False),
                                (["-c", "json", "-m", "json"], False), (["-c", "x=1", "-e", "x=1"], False),
                                ([path, path], False), ([path, "--json", path], False), ([path, path, "-c", "x=1"], False),
                                (["-cx=1"], True), (["-mcolorsys"], True), (["-e'x=1'"], True), (["-cx=1", "--json"], True), (["-cx=1", "-mcolorsys"], False)]:
            evals += 1
            rc, out, err = _cli(args)
            if expect_ok and rc != 0:
                fails.append(fail("cli_contract", "args:%r" % (args,), ["exactly one source given but exit status %d: %s" % (rc, err.strip()[-160:])], {"args": args, "expect_ok": True},
                                  ["empty-source-string"] if "" in args or "''" in args else []))
            if not expect_ok and rc != 2:
                fails.append(fail("cli_contract", "args:%r" % (args,), ["%d sources given but exit status %d (usage error expected)" % (sum(1 for a in args if not a.startswith('-') or a in ('-c', '-e', '-m')) , rc)],
                                  {"args": args, "expect_ok": False}))
        flagsets = [[], ["--no-normalize"], ["--json"], ["--json", "--no-normalize"], ["--dis"], ["--dis-after"], ["--source", "--json"]]
        progs = C16_PROGRAMS if tier == "thorough" else C16_PROGRAMS[:6] + C16_PROGRAMS[-4:]
        kinds = ["c", "e", "file"]
        for pi, prog in enumerate(progs):
            for ki, kind in enumerate(kinds):
                for fi, flags in enumerate(flagsets):
                    if tier != "thorough" and (pi + ki + fi) % 3:
                        continue
                    evals += 1
                    try:
                        msgs = _c16_case(kind, prog, flags, tmpdir)
                    except Exception as e:
                        msgs = ["case raised %s: %s" % (type(e).__name__, e)]
                    if msgs:
                        fails.append(fail("cli_contract", "%s:%r:%s" % (kind, prog, " ".join(flags)), msgs, {"kind": kind, "prog": prog, "flags": flags},
                                          ["empty-source-string"] if prog == "" else []))
        for prog in C16_RAW_PROGRAMS:
            for kind in ("e", "file"):
                for flags in ([], ["--json"]):
                    evals += 1
                    try:
                        msgs = _c16_case(kind, prog, flags, tmpdir, raw=True)
                    except Exception as e:
                        msgs = ["case raised %s: %s" % (type(e).__name__, e)]
                    if msgs:
                        fails.append(fail("cli_contract", "%s:%r:%s" % (kind, prog, " ".join(flags)), msgs, {"kind": kind, "prog": prog, "flags": flags, "raw": True}))
        # -e expressions as users write them: `linesep` is usable anywhere in the expression, also inside a generator expression or a lambda
        for expr, src in (("'x = 1' + linesep + 'y = 2'", "x = 1" + os.linesep + "y = 2"), ("linesep.join(['a = 1', 'b = a'])", "a = 1" + os.linesep + "b = a"),
                          ("''.join(line + linesep for line in ['x = 1', 'def f(): return x'])", "x = 1" + os.linesep + "def f(): return x" + os.linesep),
                          ("(lambda: 'p = 1' + linesep)()", "p = 1" + os.linesep)):
            for flags in ([], ["--json"]):
                evals += 1
                rc, out, err = _cli(["-e", expr] + flags)
                cd, want = _api_text(src, "<string>", True, "--json" in flags)
                msgs = []
                if rc != 0:
                    msgs.append("exit status %d for the valid -e expression %r: %s" % (rc, expr, err.strip()[-160:]))
                elif out != want:
                    msgs.append("stdout for -e %r differs from the API's result for the program it evaluates to" % expr)
                if msgs:
                    fails.append(fail("cli_contract", "e-expr:%s %s" % (expr, " ".join(flags)), msgs, {"e_expr": expr, "e_src": src, "flags": flags}))
        # a file named by a relative path, through a symlink, and with `..`: the printed data carries the path as it was given (as the API would for compile(src, path))
        os.makedirs(os.path.join(tmpdir, "pkg"), exist_ok=True)
        rel_src = "def f(a):\n    return lambda: a\n"
        with open(os.path.join(tmpdir, "pkg", "prog.py"), "w") as f:
            f.write(rel_src)
        try:
            os.symlink(os.path.join(tmpdir, "pkg", "prog.py"), os.path.join(tmpdir, "link.py"))
            rels = ["pkg/prog.py", "link.py", "pkg/../pkg/prog.py"]
        except OSError:
            rels = ["pkg/prog.py", "pkg/../pkg/prog.py"]
        for rel in rels:
            for flags in ([], ["--json"], ["--no-normalize"]):
                evals += 1
                rc, out, err = _cli([rel] + flags, cwd=tmpdir)
                cd, want = _api_text(rel_src, rel, "--no-normalize" not in flags, "--json" in flags)
                msgs = []
                if rc != 0:
                    msgs.append("exit status %d for the file %r: %s" % (rc, rel, err.strip()[-160:]))
                elif out != want:
                    i = next((k for k, (x, y) in enumerate(zip(out, want)) if x != y), min(len(out), len(want)))
                    msgs.append("for the file given as %r stdout differs from the API's result for compile(source, %r): first difference at char %d: %r vs %r" % (rel, rel, i, out[i:i + 60], want[i:i + 60]))
                if msgs:
                    fails.append(fail("cli_contract", "file:%s %s" % (rel, " ".join(flags)), msgs, {"relpath": rel, "flags": flags}))
        # -m module, and --dis vs --dis-after show the same instructions
        for mod in ["json.tool", "colorsys"] + (["textwrap", "bisect"] if tier == "thorough" else []):
            evals += 1
            msgs = _c16_module_dis(mod)
            if msgs:
                fails.append(fail("cli_contract", "-m %s" % mod, msgs, {"mod": mod}))
        # -m names the module whose code is shown: plain modules, packages, packages that also have a __main__ submodule, submodules
        for mod in ["colorsys", "json", "unittest", "ensurepip", "json.tool"] + (["venv", "unittest.__main__", "code_data", "email.mime"] if tier == "thorough" else []):
            for flags in ([], ["--json"]) + ((["--no-normalize"],) if tier == "thorough" else ()):
                evals += 1
                try:
                    msgs = _c16_module(mod, flags)
                except Exception as e:
                    msgs = ["case raised %s: %s" % (type(e).__name__, e)]
                if msgs:
                    fails.append(fail("cli_contract", "-m %s %s" % (mod, " ".join(flags)), msgs, {"mod": mod, "flags": flags, "api": True}))
    finally:
        import shutil
        shutil.rmtree(tmpdir, ignore_errors=True)
    return result(evals, evals, fails, ["-c 'x = 1' --json", "-m json.tool --dis-after"], "13 source-option combinations (0/1/2 sources, empty strings); %d programs x {-c, -e, file} x 7 flag sets (%s); 2-4 modules via -m with --dis / --dis-after" % (len(C16_PROGRAMS), "all" if tier == "thorough" else "every third"))


@replayer("C16", "cli_subprocess")
def c16_replay(rec):
    import tempfile
    r = rec["recipe"]
    if "args" in r:
        rc, out, err = _cli(r["args"])
        if r["expect_ok"] and rc != 0:
            return ["exit status %d: %s" % (rc, err.strip()[-160:])]
        if not r["expect_ok"] and rc != 2:
            return ["exit status %d, usage error expected" % rc]
        return []
    if "e_expr" in r:
        rc, out, err = _cli(["-e", r["e_expr"]] + r["flags"])
        cd, want = _api_text(r["e_src"], "<string>", True, "--json" in r["flags"])
        return [] if (rc == 0 and out == want) else ["exit %d; stdout differs from the API's result" % rc]
    if "relpath" in r:
        d = tempfile.mkdtemp(prefix="pcv-c16r-")
        try:
            os.makedirs(os.path.join(d, "pkg"))
            src = "def f(a):\n    return lambda: a\n"
            open(os.path.join(d, "pkg", "prog.py"), "w").write(src)
            try:
                os.symlink(os.path.join(d, "pkg", "prog.py"), os.path.join(d, "link.py"))
            except OSError:
                pass
            rc, out, err = _cli([r["relpath"]] + r["flags"], cwd=d)
            cd, want = _api_text(src, r["relpath"], "--no-normalize" not in r["flags"], "--json" in r["flags"])
            return [] if (rc == 0 and out == want) else ["exit %d; stdout differs from the API's result for the path as given" % rc]
        finally:
            import shutil
            shutil.rmtree(d, ignore_errors=True)
    if "mod" in r:
        return _c16_module(r["mod"], r.get("flags", [])) if r.get("api") else _c16_module_dis(r["mod"])
    d = tempfile.mkdtemp(prefix="pcv-c16r-")
    try:
        return _c16_case(r["kind"], r["prog"], r["flags"], d, raw=r.get("raw", False))
    finally:
        import shutil
        shutil.rmtree(d, ignore_errors=True)


def c08_corpus(code, dec):
    """every decoded and every JSON-loaded CodeData is hashable; values equal across the two routes hash equal and sit in sets"""
    from .props2 import CORPUS_CHECKS  # noqa
    cd, err = dec.get(code)
    if err is not None:
        return decode_failure(code, err)
    msgs = []
    try:
        h1 = hash(cd)
    except TypeError as e:
        return ["decoded CodeData is not hashable: %s" % e]
    try:
        j = CodeData.from_json_data(json.loads(json.dumps(cd.to_json_data())))
    except Exception:
        return []       # C07 reports codec failures
    try:
        h2 = hash(j)
    except TypeError as e:
        return ["JSON-loaded CodeData is not hashable: %s" % e]
    if cd == j and h1 != h2:
        msgs.append("decoded and JSON-loaded values are equal but hash differently")
    if cd == j and (j not in {cd} or cd not in {j: 1}):
        msgs.append("set/dict membership fails between equal values")
    if (cd == j) != (j == cd):
        msgs.append("equality is not symmetric between the decoded and the loaded value")
    n = cd.normalize()
    if n == cd and hash(n) != h1:
        msgs.append("normalized value equals the decoded one but hashes differently")
    if n == cd:
        try:
            dd = oracle.code_diff(n.to_code(), code)
        except Exception as e:
            dd = ["to_code of the normalized value raised %s: %s" % (type(e).__name__, e)]
        if dd:
            msgs.append("normalized value equals the decoded one but encodes to different code: %s" % dd[0])
    return msgs


from .props2 import CORPUS_CHECKS as _CC
_CC["C08"] = [("hashable_value_across_routes", c08_corpus)]


def c10_real_tables(code, dec):
    """every line table found in real compiled code: decoded per-instruction lines equal CPython's, re-encoding reproduces the table"""
    cd, err = dec.get(code)
    if err is not None:
        return decode_failure(code, err)
    msgs = []
    lines = oracle.cpython_line_of_offsets(code)
    ref = oracle.cpython_instructions(code)
    flat_ins = [i for b in cd.blocks for i in b]
    if len(ref) == len(flat_ins):
        for ins, (off, opname, kind, val, n) in zip(flat_ins, ref):
            if ins.line_number != lines.get(off):
                msgs.append("offset %d (%s): decoded line %r, CPython's table gives %r" % (off, opname, ins.line_number, lines.get(off)))
                break
    try:
        back = cd.to_code()
    except Exception:
        return msgs          # C01/C03 report encoder failures
    a, b = (code.co_linetable, back.co_linetable) if PY310 else (code.co_lnotab, back.co_lnotab)
    if a != b:
        msgs.append("code.%s: %r != %r" % ("co_linetable" if PY310 else "co_lnotab", list(a)[:24], list(b)[:24]))
    return msgs


_CC["C10"] = [("real_tables_roundtrip", c10_real_tables)]
