"""Property-specific bounded checks that are not 'one check per corpus code object' (E3, real interpreters, stdlib only).

EXTRA[prop] = [(part name, fn(tier, seed) -> {"evaluations", "distinct", "failures", "samples", "bound"})]
Each failure is {"check", "unit", "msgs", "recipe", "tags"}; REPLAY[(prop, part)] re-runs one recipe.
"""
import copy
import dataclasses
import dis
import inspect
import itertools
import json
import os
import math
import random
import sys
import types

from code_data import CodeData

from . import gen, oracle

PY38 = sys.version_info >= (3, 8)
PY310 = sys.version_info >= (3, 10)
CORPUS_CHECKS = {}
EXTRA = {}
REPLAY = {}


def part(prop, name):
    def deco(fn):
        EXTRA.setdefault(prop, []).append((name, fn))
        return fn
    return deco


def replayer(prop, name):
    def deco(fn):
        REPLAY[(prop, name)] = fn
        return fn
    return deco


def result(evals, distinct, failures, samples, bound):
    return {"evaluations": evals, "distinct": distinct, "failures": failures, "samples": samples[:5], "bound": bound}


def fail(check, unit, msgs, recipe, tags=()):
    return {"check": check, "unit": unit, "msgs": list(msgs)[:6], "recipe": recipe, "tags": list(tags)}


def code_replace(code, **kw):
    if hasattr(code, "replace"):
        return code.replace(**kw)
    names = ["co_argcount", "co_kwonlyargcount", "co_nlocals", "co_stacksize", "co_flags", "co_code", "co_consts", "co_names", "co_varnames",
             "co_filename", "co_name", "co_firstlineno", "co_lnotab", "co_freevars", "co_cellvars"]
    vals = [kw.get(n, getattr(code, n)) for n in names]
    return types.CodeType(*vals)


# =========================================================================================== C11 flags
def known_flag_bits():
    """The flags CPython defines for this interpreter, read independently of the library."""
    import __future__
    bits = dict((v, k) for k, v in dis.COMPILER_FLAG_NAMES.items())
    out = dict(dis.COMPILER_FLAG_NAMES)
    for n in __future__.all_feature_names:
        f = getattr(__future__, n).compiler_flag
        if f and f not in out:
            out[f] = n
    return out


_PRUNE = [0]


def _prune_enum_cache():
    """enum (3.8/3.9) scans every cached pseudo-member on each decomposition, which makes long enumerations quadratic.
    The cache is semantically transparent; drop the unnamed composites every 32 words."""
    _PRUNE[0] += 1
    if _PRUNE[0] % 32:
        return
    try:
        from code_data._flags_data import _CodeFlag
        m = _CodeFlag._value2member_map_
        for v in [v for v, mem in list(m.items()) if mem._name_ is None]:
            del m[v]
    except Exception:
        pass


def _c11_word(word, known_mask):
    from code_data._flags_data import from_flags_data, to_flags_data
    _prune_enum_cache()
    try:
        fd = to_flags_data(word)
    except Exception:
        if word & ~known_mask:
            return None       # raising on an unrepresentable bit is what the property demands
        return "to_flags_data(%#x) raised although every bit is a defined flag" % word
    try:
        back = from_flags_data(set(fd))
    except Exception as e:
        return "from_flags_data(%r) raised %s" % (sorted(fd), e)
    if back != word:
        return "from_flags_data(to_flags_data(%#x)) == %#x: bits %#x were silently dropped or invented" % (word, back, back ^ word)
    return None


@part("C11", "flag_words")
def c11_flag_words(tier, seed):
    known = known_flag_bits()
    bits = sorted(known)
    mask = sum(bits)
    fails, evals, samples = [], 0, []
    rnd = random.Random(seed)
    full = tier == "thorough"
    n = len(bits)
    if full:
        words = range(1 << n)
        bound = "all 2^%d subsets of the %d defined flags (exhaustive)" % (n, n)
    else:
        words = sorted(set([0] + [1 << i for i in range(n)] + [(1 << i) | (1 << j) for i in range(n) for j in range(i)] + [(1 << n) - 1]
                           + [rnd.getrandbits(n) for _ in range(6000)]))
        bound = "subsets of the %d defined flags: empty, all singles, all pairs, full, 6000 seeded random (the thorough tier enumerates all 2^%d)" % (n, n)
    for w in words:
        word = sum(bits[i] for i in range(n) if w >> i & 1)
        evals += 1
        m = _c11_word(word, mask)
        if m and len(fails) < 10:
            fails.append(fail("flag_word_lossless", "word:%#x" % word, [m], {"word": word}, ["known-flags-only"]))
    # unknown bits: alone and mixed with known subsets
    unknown = [1 << b for b in range(32) if not (1 << b) & mask]
    for u in unknown:
        for base in [0, mask] + [sum(b for b in bits if rnd.random() < 0.5) for _ in range(8 if not full else 64)]:
            evals += 1
            m = _c11_word(base | u, mask)
            if m and len(fails) < 20:
                fails.append(fail("flag_word_lossless", "word:%#x" % (base | u), [m], {"word": base | u}, ["unknown-bit"]))
    samples = [{"word": hex(mask)}, {"word": hex(unknown[0] if unknown else 0)}]
    return result(evals, evals, fails, samples, bound)


@replayer("C11", "flag_words")
def c11_flag_words_replay(rec):
    known = known_flag_bits()
    m = _c11_word(rec["recipe"]["word"], sum(known))
    return [m] if m else []


HEADER = ["co_flags", "co_argcount", "co_kwonlyargcount", "co_nlocals", "co_stacksize", "co_firstlineno", "co_name", "co_filename"] + (["co_posonlyargcount"] if PY38 else [])

C11_BASES = [
    ("module", "x = 1\n"), ("def", "def f(a, b=1, *c, d, **e):\n    return a\n"), ("gen", "def f(a):\n    yield a\n"),
    ("coro", "async def f(a):\n    await a\n"), ("asyncgen", "async def f(a):\n    yield a\n"), ("lambda", "f = lambda x, *y: x\n"),
    ("class", "class A:\n    x = 1\n"), ("closure", "def o(q):\n    def f(a):\n        return a + q\n    return f\n"),
    ("comp", "r = [i for i in x]\n"), ("kwonly", "def f(*, k, j=1):\n    return k\n"), ("noargs", "def f():\n    l = 1\n    return l\n"),
    ("annot", "from __future__ import annotations\ndef f(a: int): return a\n"),
]
if PY38:
    C11_BASES.append(("posonly", "def f(a, b, /, c, *, d):\n    return a\n"))


def _c11_alterations(code):
    yield "identity", {}
    for b in range(32):
        yield "flags^%#x" % (1 << b), {"co_flags": code.co_flags ^ (1 << b)}
    for d in (-1, 1):
        if code.co_argcount + d >= 0:
            yield "argcount%+d" % d, {"co_argcount": code.co_argcount + d}
        if code.co_kwonlyargcount + d >= 0:
            yield "kwonly%+d" % d, {"co_kwonlyargcount": code.co_kwonlyargcount + d}
        if PY38 and code.co_posonlyargcount + d >= 0:
            yield "posonly%+d" % d, {"co_posonlyargcount": code.co_posonlyargcount + d}
    yield "swap_arg_kwonly", {"co_argcount": code.co_kwonlyargcount, "co_kwonlyargcount": code.co_argcount}
    # one more parameter together with a name for it, so that CPython's constructor accepts the header (also on code that is not a function)
    grown = {"co_varnames": ("extra_parameter",) + tuple(code.co_varnames), "co_nlocals": code.co_nlocals + 1}
    yield "argcount+1_named", dict(grown, co_argcount=code.co_argcount + 1)
    yield "kwonly+1_named", dict(grown, co_kwonlyargcount=code.co_kwonlyargcount + 1)
    if PY38:
        yield "posonly=argcount", {"co_posonlyargcount": code.co_argcount}
        yield "posonly=argcount+1", {"co_posonlyargcount": code.co_argcount + 1}


def _c11_header_one(code, label):
    try:
        cd = CodeData.from_code(code)
    except Exception:
        return None                     # raising is allowed
    try:
        back = cd.to_code()
    except Exception as e:
        return None                     # from_code returned, to_code raised: not 'silently lossy data'... the header was not reproduced wrongly
    diffs = ["%s: %r != %r" % (h, getattr(code, h), getattr(back, h)) for h in HEADER if getattr(code, h) != getattr(back, h)]
    if diffs:
        return "%s: from_code returned data whose to_code() has a different header: %s" % (label, "; ".join(diffs))
    return None


@part("C11", "header_alterations")
def c11_headers(tier, seed):
    fails, evals, samples = [], 0, []
    for bid, src in C11_BASES:
        top = compile(src, "<c11:%s>" % bid, "exec", dont_inherit=True)
        for path, code in gen.walk_code(top):
            for label, kw in _c11_alterations(code):
                try:
                    alt = code_replace(code, **kw)
                except Exception:
                    continue            # CPython itself refuses this header
                evals += 1
                m = _c11_header_one(alt, label)
                if m and len(fails) < 30:
                    fails.append(fail("header_exact_or_raise", "%s%s:%s" % (bid, list(path), label), [m],
                                      {"base": bid, "path": list(path), "alter": {k: v for k, v in kw.items()}, "label": label}, ["alter:" + label.split("^")[0].split("+")[0].split("-")[0]]))
                if len(samples) < 3:
                    samples.append("%s:%s" % (bid, label))
    return result(evals, evals, fails, samples, "%d base sources (all nested code objects) x {identity, 32 single co_flags bit flips, argument counts +-1, swapped counts, positional-only = / > argcount}" % len(C11_BASES))


def _c11_noassert_subprocess(payload):
    """Run the header alterations (or one recipe) in a child interpreter started with -O: guards written as `assert` do not exist there."""
    import subprocess
    prog = ("import json, sys; from rtc import props2; "
            "print('C11-NOASSERT ' + json.dumps(props2._c11_noassert_child(json.loads(sys.argv[1]))))")
    p = subprocess.run([sys.executable, "-O", "-c", prog, json.dumps(payload)], capture_output=True, text=True, timeout=600)
    for line in p.stdout.splitlines():
        if line.startswith("C11-NOASSERT "):
            return json.loads(line[len("C11-NOASSERT "):])
    raise RuntimeError("the -O child produced no result: rc=%s %s" % (p.returncode, (p.stderr or p.stdout)[-400:]))


def _c11_noassert_child(payload):
    if __debug__:
        raise RuntimeError("child not started with -O")
    if payload.get("recipe"):
        r = payload["recipe"]
        code = compile(dict(C11_BASES)[r["base"]], "<c11:%s>" % r["base"], "exec", dont_inherit=True)
        for i in r["path"]:
            code = code.co_consts[i]
        kw = {k: (tuple(v) if isinstance(v, list) else v) for k, v in r["alter"].items()}
        m = _c11_header_one(code_replace(code, **kw), r["label"])
        return {"msgs": [m] if m else []}
    out, evals = [], 0
    for bid, src in C11_BASES:
        top = compile(src, "<c11:%s>" % bid, "exec", dont_inherit=True)
        for path, code in gen.walk_code(top):
            for label, kw in _c11_alterations(code):
                try:
                    alt = code_replace(code, **kw)
                except Exception:
                    continue
                evals += 1
                m = _c11_header_one(alt, label)
                if m and len(out) < 30:
                    out.append({"base": bid, "path": list(path), "alter": {k: (list(v) if isinstance(v, tuple) else v) for k, v in kw.items()}, "label": label, "msg": m})
    return {"evals": evals, "fails": out}


@part("C11", "header_alterations_without_asserts")
def c11_headers_noassert(tier, seed):
    r = _c11_noassert_subprocess({})
    fails = [fail("header_exact_or_raise_under_-O", "%s%s:%s (python -O)" % (f["base"], f["path"], f["label"]), ["python -O: " + f["msg"]],
                  {"base": f["base"], "path": f["path"], "alter": f["alter"], "label": f["label"]}, ["noassert", "alter:" + f["label"].split("^")[0].split("+")[0].split("-")[0]])
             for f in r["fails"]]
    return result(r["evals"], r["evals"], fails, ["module:argcount+1_named (python -O)"],
                  "the header alterations again in a child interpreter started with -O (assert statements removed): refusing a header must not depend on `assert`")


@replayer("C11", "header_alterations_without_asserts")
def c11_headers_noassert_replay(rec):
    return ["python -O: " + m for m in _c11_noassert_subprocess({"recipe": rec["recipe"]})["msgs"]]


@replayer("C11", "header_alterations")
def c11_headers_replay(rec):
    r = rec["recipe"]
    src = dict(C11_BASES)[r["base"]]
    code = compile(src, "<c11:%s>" % r["base"], "exec", dont_inherit=True)
    for i in r["path"]:
        code = code.co_consts[i]
    m = _c11_header_one(code_replace(code, **{k: (tuple(v) if isinstance(v, list) else v) for k, v in r["alter"].items()}), r["label"])
    return [m] if m else []


# =========================================================================================== C12 purity
def _code_snapshot(code):
    return tuple((a, getattr(code, a)) for a in oracle.CODE_ATTRS) + (tuple(_code_snapshot(c) if isinstance(c, types.CodeType) else oracle.const_repr(c) for c in code.co_consts),)


def _json_snapshot(j):
    return json.dumps(j, sort_keys=True, default=repr), _types_of(j)


def _types_of(j):
    if isinstance(j, dict):
        return ("d", tuple((k, _types_of(v)) for k, v in j.items()))
    if isinstance(j, list):
        return ("l", tuple(_types_of(v) for v in j))
    return type(j).__name__


def _mutate_json(j, depth=0):
    """mutate a JSON document in place, everywhere"""
    if isinstance(j, dict):
        for k in list(j):
            _mutate_json(j[k], depth + 1)
        j["__mutated__"] = 1
        if "name" in j and isinstance(j["name"], str):
            j["name"] = j["name"] + "_x"
    elif isinstance(j, list):
        for v in j:
            _mutate_json(v, depth + 1)
        j.append("__mutated__")


C12_SOURCES = [
    ("fn", "def f(a, *r, k=1, **kw):\n    '''doc'''\n    x = (a, 1.5, 'b', b'c', None, ..., 2**70)\n    return [i for i in r if i in {1, 2}]\n"),
    ("nested", "def o(q):\n    def i(z):\n        return q + z\n    return i\nclass C:\n    def m(self): return lambda: 1\n"),
    ("consts", "x = (1, (2, (3, frozenset({4}))), 1e999, -0.0, 1j)\n"),
    ("lines", "x = 1" + "\n" * 300 + "y = 2\n"),
    ("dead", "def fn():\n    return\n    def i():\n        i()\n"),
    ("module", "import os\nprint(os.name)\n"),
    ("except_oneliner", "def f(t):\n    try:\n        g()\n    except OSError: pass\n    while t:\n        if t: break\n"),
    ("ellipsis", "def f(x):\n    return x[...], x[..., 1], (..., b'b')\n"),
    ("class_twice", "class A: pass\nclass A: pass\n"),
]


def _c12_handbuilt():
    """documents that no compiler of this interpreter may produce: every private field set, argument-less instructions with line offsets"""
    from code_data import AdditionalLine, Args, Constant, Function, Instruction, Jump, Name, NoArg
    from .props4 import mk
    body = [Instruction("POP_TOP", NoArg(), None, 3, (0, 4)), Instruction("LOAD_CONST", Constant((1, (2, ...), b"x", frozenset([3])), 1), None, 3, (1,)),
            Instruction("JUMP_ABSOLUTE", Jump(0), 2, 4), Instruction("LOAD_NAME", Name("n", 0), None, 4), Instruction("RETURN_VALUE", NoArg(), None, 5, (2, 2))]
    return [("handbuilt", mk([body], type=Function(Args(("p",), ("a",), "r", ("k",), "kw"), "doc", "GENERATOR"), _additional_line=AdditionalLine(9, (1, 2)),
                             _additional_args=(Constant(None, 0), Name("m", 1)), _nested=True, future_annotations=True))]


def _interpreter_state():
    """settings shared by every later call in the process (what 'no shared mutable state' must also cover)"""
    import decimal, gc, locale, random, warnings
    st = {"recursionlimit": sys.getrecursionlimit(), "cwd": os.getcwd(), "environ": tuple(sorted(os.environ.items())), "path": tuple(sys.path), "warning_filters": len(warnings.filters),
          "switchinterval": sys.getswitchinterval(), "trace": sys.gettrace(), "profile": sys.getprofile(), "gc": (gc.isenabled(), gc.get_threshold()), "locale": locale.setlocale(locale.LC_ALL),
          "random": hash(random.getstate()), "decimal": repr(decimal.getcontext()), "dont_write_bytecode": sys.dont_write_bytecode, "displayhook": sys.displayhook, "excepthook": sys.excepthook,
          "stdout": sys.stdout, "stderr": sys.stderr}
    if hasattr(sys, "get_int_max_str_digits"):
        st["int_max_str_digits"] = sys.get_int_max_str_digits()
    return st


def _state_diff(a, b):
    return sorted(k for k in a if a[k] != b.get(k))


def _outcome(fn):
    try:
        return ("value", fn())
    except Exception as e:
        return ("raised", type(e).__name__, str(e)[:80])


def _c12_exceptional(label, make_code):
    """inputs on which some API calls legitimately raise (a constant beyond the interpreter's int<->str digit limit): every call must have the *same* outcome
    whenever it is repeated, whatever was called in between, and none may change interpreter-wide settings"""
    msgs = []
    st0 = _interpreter_state()
    if label == "undefined_flag":
        calls = make_code()
        return _c12_repeat(calls, st0)
    code = make_code()
    d = CodeData.from_code(code)
    doc = {"blocks": [[{"name": "LOAD_CONST", "arg": {"constant": {"int": "9" * 5000}}}, {"name": "RETURN_VALUE"}]], "filename": "f", "first_line_number": 1, "name": "n", "stacksize": 1}
    calls = [("from_json_data(document with a 5000-digit int)", lambda: CodeData.from_json_data(doc)), ("to_json_data(data with a 5000-digit int)", lambda: json.dumps(d.to_json_data(), sort_keys=True)),
             ("to_code", lambda: _code_snapshot(d.to_code())), ("normalize", lambda: d.normalize())]
    return _c12_repeat(calls, st0)


def _c12_repeat(calls, st0):
    msgs = []
    first = {}
    for rnd in range(3):
        for name, fn in (calls if rnd != 1 else list(reversed(calls))):
            o = _outcome(fn)
            if name not in first:
                first[name] = o
            elif first[name] != o and not (o[0] == "value" and first[name][0] == "value" and repr(o) == repr(first[name])):
                msgs.append("%s: outcome of call %d differs from the first call (%s, first %s)" % (name, rnd + 1, str(o)[:80], str(first[name])[:80]))
    diff = _state_diff(st0, _interpreter_state())
    if diff:
        msgs.append("API calls changed interpreter-wide state: %s" % ", ".join(diff))
    return msgs


def _c12_one(sid, code, d1=None):
    st0 = _interpreter_state()
    msgs = _c12_one_(sid, code, d1)
    diff = _state_diff(st0, _interpreter_state())
    if diff:
        msgs.append("API calls changed interpreter-wide state: %s" % ", ".join(diff))
    return msgs


def _c12_one_(sid, code, d1=None):
    msgs = []
    if d1 is None:
        snap = _code_snapshot(code)
        d1 = CodeData.from_code(code)
        d2 = CodeData.from_code(code)
        if _code_snapshot(code) != snap:
            msgs.append("from_code modified its argument")
        if d1 != d2 or repr(d1) != repr(d2):
            msgs.append("from_code is not repeatable on the same code object")
        return msgs + _c12_data(d1, can_encode=True)
    return _c12_data(d1, can_encode=False)


def _deep_immutable(x):
    if isinstance(x, (list, dict, set, bytearray)):
        return False
    if isinstance(x, (tuple, frozenset)):
        return all(_deep_immutable(e) for e in x)
    if dataclasses.is_dataclass(x) and not isinstance(x, type):
        return all(_deep_immutable(getattr(x, f.name)) for f in dataclasses.fields(x))
    return True


C12_DOCUMENTS = [
    {"blocks": [[{"name": "NOP", "_line_offsets_override": [], "arg": {"name": "n"}}, {"name": "POP_TOP", "_line_offsets_override": [1, 2]}]], "filename": "f", "first_line_number": 1, "name": "n",
     "stacksize": 1, "freevars": [], "_additional_args": [], "type": {"args": {"positional_only": [], "positional_or_keyword": ["a"], "keyword_only": []}},
     "_additional_line": {"line": 3, "additional_offsets": [1, 2]}},
    {"blocks": [[{"name": "LOAD_CONST", "arg": {"constant": [1, [2, [3]], {"frozenset": [4]}]}}], []], "filename": "f", "first_line_number": 1, "name": "n", "stacksize": 1,
     "freevars": ["x"], "_additional_args": [{"name": "m", "_index_override": 0}], "_additional_line": {"line": None, "additional_offsets": []}},
]


def _c12_document(doc):
    """from_json_data on a hand-written, schema-valid document: pure, repeatable, and the result aliases nothing of the document"""
    msgs = []
    snap = _json_snapshot(doc)
    x = CodeData.from_json_data(doc)
    if _json_snapshot(doc) != snap:
        msgs.append("from_json_data modified the hand-written document")
    if not _deep_immutable(x):
        msgs.append("the loaded CodeData holds a mutable container (it may be the document's own list)")
    try:
        before = hash(x), repr(x)
    except TypeError as e:
        return msgs + ["loaded CodeData is not hashable: %s" % e]
    _mutate_json(doc)
    try:
        if (hash(x), repr(x)) != before:
            msgs.append("mutating the document afterwards changed the loaded CodeData (shared mutable state)")
    except TypeError as e:
        msgs.append("after mutating the document the loaded CodeData is not hashable: %s" % e)
    return msgs


def _c12_data(d1, can_encode):
    msgs = []
    keep = copy.deepcopy(d1)
    r1 = repr(d1)
    if can_encode:
        c1 = d1.to_code()
        c2 = d1.to_code()
        if oracle.code_diff(c1, c2):
            msgs.append("to_code is not repeatable: %s" % oracle.code_diff(c1, c2)[0])
        if repr(d1) != r1 or d1 != keep:
            msgs.append("to_code modified the CodeData")
    n1 = d1.normalize()
    n2 = d1.normalize()
    if n1 != n2 or repr(n1) != repr(n2):
        msgs.append("normalize is not repeatable")
    if repr(d1) != r1:
        msgs.append("normalize modified its argument")
    j1 = d1.to_json_data()
    j2 = d1.to_json_data()
    if _json_snapshot(j1) != _json_snapshot(j2):
        msgs.append("to_json_data is not repeatable")
    if repr(d1) != r1:
        msgs.append("to_json_data modified its argument")
    js = _json_snapshot(j1)
    try:
        l1 = CodeData.from_json_data(j1)
    except Exception as e:
        return msgs + ["from_json_data raised %s: %s" % (type(e).__name__, e)]
    if _json_snapshot(j1) != js:
        msgs.append("from_json_data modified its argument (nested dictionaries/lists of the document differ after the call)")
    try:
        l2 = CodeData.from_json_data(j1)
        if l1 != l2:
            msgs.append("from_json_data is not repeatable on the same document")
    except Exception as e:
        msgs.append("second from_json_data on the same document raised %s: %s" % (type(e).__name__, e))
    # interleaved: calls on the normalised value and back
    jn = n1.to_json_data()
    jns = _json_snapshot(jn)
    CodeData.from_json_data(jn)
    if can_encode:
        d1.to_code()
    if _json_snapshot(jn) != jns:
        msgs.append("from_json_data modified the normalized document")
    # returned values share no mutable state with the argument
    j_other = d1.to_json_data()
    other_snap = _json_snapshot(j_other)
    _mutate_json(j1)
    if _json_snapshot(j_other) != other_snap:
        msgs.append("mutating one returned JSON document changed another document returned earlier (shared mutable state)")
    j3 = d1.to_json_data()
    if _json_snapshot(j3) != js:
        msgs.append("mutating a returned JSON document affected a later to_json_data call")
    if repr(d1) != r1 or d1 != keep:
        msgs.append("mutating a returned JSON document affected the CodeData")
    if l1 != keep:
        msgs.append("mutating the JSON document affected the CodeData loaded from it")
    return msgs


@part("C12", "purity_histories")
def c12_purity(tier, seed):
    fails, evals, samples = [], 0, []
    srcs = list(C12_SOURCES)
    if tier == "thorough":
        srcs += [(i, s) for i, s, m in gen.g2_templates(False) if m == "exec"][::7]
    for sid, src in srcs:
        top = compile(src, "<c12:%s>" % sid, "exec", dont_inherit=True)
        for path, code in gen.walk_code(top):
            evals += 14
            try:
                msgs = _c12_one(sid, code)
            except Exception as e:
                msgs = ["history raised %s: %s" % (type(e).__name__, e)]
            if msgs:
                from . import findings
                fails.append(fail("api_calls_pure", "%s%s" % (sid, list(path)), msgs, {"source": src, "path": list(path)}, findings.input_tags(code)))
        samples.append(sid)
    for k, doc in enumerate(C12_DOCUMENTS):
        evals += 4
        try:
            msgs = _c12_document(copy.deepcopy(doc))
        except Exception as e:
            msgs = ["from_json_data on a hand-written document raised %s: %s" % (type(e).__name__, e)]
        if msgs:
            fails.append(fail("api_calls_pure", "document:%d" % k, msgs, {"document": k}))
    for label, mk_ in C12_EXCEPTIONAL:
        evals += 12
        try:
            msgs = _c12_exceptional(label, mk_)
        except Exception as e:
            msgs = ["history raised %s: %s" % (type(e).__name__, e)]
        if msgs:
            fails.append(fail("api_calls_pure", "exceptional:%s" % label, msgs, {"exceptional": label}))
    for sid, cd in _c12_handbuilt():
        evals += 12
        try:
            msgs = _c12_one(sid, None, cd)
        except Exception as e:
            msgs = ["history raised %s: %s" % (type(e).__name__, e)]
        if msgs:
            fails.append(fail("api_calls_pure", sid, msgs, {"handbuilt": sid}))
    return result(evals, len(srcs) + 1, fails, samples, "%d sources x every nested code object, plus one hand-built CodeData with every private field set (argument-less instructions with line offsets), x a fixed history of 14 repeated/interleaved API calls with deep snapshots" % len(srcs))


def _c12_undefined_flag_calls():
    """from_code on a code object that carries a flag bit the interpreter does not define: it refuses - every time, whatever was decoded in between"""
    base = compile("def f(a):\n    return a\n", "<c12:flag>", "exec", dont_inherit=True).co_consts[0]
    known = 0
    for f in known_flag_bits():
        known |= f
    bit = next(1 << k for k in range(8, 31) if not (known & (1 << k)))
    bad = code_replace(base, co_flags=base.co_flags | bit)
    bad2 = code_replace(base, co_flags=base.co_flags | bit | 0x10)     # the same undefined bit next to another flag (CO_NESTED)
    return [("from_code(code with an undefined flag bit)", lambda: CodeData.from_code(bad)), ("from_code(unaltered code)", lambda: CodeData.from_code(base)),
            ("from_code(code with the undefined bit and CO_NESTED)", lambda: CodeData.from_code(bad2))]


C12_EXCEPTIONAL = [("hex5000", lambda: compile("x = 0x" + "f" * 5000 + "\n", "<c12:huge>", "exec", dont_inherit=True)),
                   ("undefined_flag", _c12_undefined_flag_calls),
                   ("shift", lambda: compile("x = 1 << 20000\ny = -(1 << 20000)\n", "<c12:shift>", "exec", dont_inherit=True))]


@replayer("C12", "purity_histories")
def c12_replay(rec):
    if "exceptional" in rec["recipe"]:
        return _c12_exceptional(rec["recipe"]["exceptional"], dict(C12_EXCEPTIONAL)[rec["recipe"]["exceptional"]])
    if "document" in rec["recipe"]:
        return _c12_document(copy.deepcopy(C12_DOCUMENTS[rec["recipe"]["document"]]))
    if "handbuilt" in rec["recipe"]:
        return _c12_one("replay", None, _c12_handbuilt()[0][1])
    code = compile(rec["recipe"]["source"], "<c12>", "exec", dont_inherit=True)
    for i in rec["recipe"]["path"]:
        code = code.co_consts[i]
    return _c12_one("replay", code)


def _load_more():
    from . import props3  # noqa: F401  (registers more parts)
    from . import props4  # noqa: F401
    from . import props5  # noqa: F401
