"""Replay host: rebuild concrete inputs from a replay record and call the untouched library function.  3.7+."""


import json
import sys

from . import gen


def replay_e3(rec):
    from . import run as R
    from . import props
    recipe = rec.get("recipe") or {}
    part = rec.get("part")
    if part and part != "corpus":
        from . import props2
        props2._load_more()
        fn = props2.REPLAY.get((rec["property"], part))
        if fn is None:
            return {"violated": None, "note": "no replayer for part %s" % part}
        msgs = fn(rec)
        return {"violated": bool(msgs), "observed": msgs}
    code = None
    if "file" in recipe:
        code = compile(open(recipe["file"], "rb").read(), recipe["file"], "exec", dont_inherit=True)
    else:
        sid = recipe.get("source_id")
        if "filename" in recipe:
            code = compile(gen.FILENAME_SRC, recipe["filename"], "exec", dont_inherit=True)
        items = gen.g1_repo_examples() + gen.g2_templates(True) + gen.g3_boundaries(True) + gen.TLA_ITEMS
        pre = []
        for id_, src, mode in items:
            if id_ == sid:
                code = compile(src, "<%s>" % id_, mode, flags=recipe.get("flags", 0), dont_inherit=True, optimize=recipe.get("optimize", 0))
                if recipe.get("twin") is not None:      # history: the original is decoded first, in this process
                    pre.append(code)
                    if recipe["twin"] == 0:
                        code = compile(src, "<other-file:%s>" % id_, mode, dont_inherit=True, optimize=0)
                    else:
                        code = compile(gen.twin_sources(src), "<%s>" % id_, mode, dont_inherit=True, optimize=0)
                break
        for c0 in pre:
            from code_data import CodeData
            for _, cc in gen.walk_code(c0):
                try:
                    CodeData.from_code(cc)
                except Exception:
                    pass
    if code is None:
        return {"violated": None, "note": "cannot rebuild input %r" % (recipe,)}
    for i in rec.get("path") or []:
        code = code.co_consts[i]
    dec = props.Decoded()
    for cname, fn in R._checks(rec["property"]):
        if cname == rec["check"]:
            msgs = fn(code, dec)
            return {"violated": bool(msgs), "observed": msgs}
    return {"violated": None, "note": "unknown check %r" % rec.get("check")}


def replay_e1(rec):
    from . import replayers
    h = rec["obligation"].split("/")[0]
    for prefix, fn in replayers.REPLAYERS.items():
        if h.startswith(prefix):
            return fn(rec)
    return {"violated": None, "note": "no concrete replayer for harness %s (the failed obligation and the solver's model are in this file)" % h}


def main():
    from .run import install_api_time_limits
    install_api_time_limits(600)
    rec = json.load(open(sys.argv[1]))
    if rec.get("property") in ("C02", "C03", "C05", "C09", "C10", "C13") and hasattr(sys, "set_int_max_str_digits"):
        sys.set_int_max_str_digits(0)
    try:
        res = replay_e3(rec) if rec.get("kind") == "e3" else replay_e1(rec)
    except Exception as e:
        import traceback
        res = {"violated": None, "note": "replay raised %s: %s %s" % (type(e).__name__, e, traceback.format_exc()[-500:])}
    print(json.dumps(res, default=repr))


if __name__ == "__main__":
    main()
