"""Contracts for code_data/_json_data.py (C07): tag dispatch of the constant codec is consistent, its output is plain JSON.

`value_to_json` / `constant_value_from_json` run on symbolic payloads per constructor; recursion into container elements is the
induction hypothesis (an opaque element round-trips).  Assumed contracts of externals (validated by E3's real json cycle):
b64decode(b64encode(b).decode()) == b, literal_eval(repr(s)) == s for str, int(str(n)) == n.
"""
from __future__ import annotations

import math

import z3

import code_data
import code_data._json_data as J
from code_data import Args, Cellvar, CodeData, Constant, Freevar, Function, Instruction, Jump, Name, NoArg, Varname, AdditionalLine

from pcv import rewrite
from pcv.core import Ctx, SymBool, SymFloat, SymInt, Unsupported, sem
from pcv.registry import harness
from .util import Z, cached

MAXI = 2 ** 53 - 1


class SymStr:
    """opaque str with one symbolic attribute: is it encodable as UTF-8 (no lone surrogate)?"""

    def __init__(s, name):
        s.name = name
        s.encodable = z3.Bool(name + "_utf8_encodable")

    def encode(s, enc):
        if enc != "utf-8":
            raise Unsupported("encode(%r)" % enc)
        if Ctx.cur.decide(s.encodable):
            return b"<opaque>"
        raise sem(UnicodeEncodeError("utf-8", "x", 0, 1, "surrogates not allowed"))

    def __eq__(s, o):
        return s is o

    def __hash__(s):
        return id(s)


class ReprOf:
    def __init__(s, of):
        s.of = of


class Opaque:
    def __init__(s, tag, of=None):
        s.tag, s.of = tag, of

    def decode(s, enc):
        return Opaque("b64text", s.of)


class OpaqueConst:
    """element of a container: induction hypothesis from_json(to_json(x)) == x"""

    def __init__(s, i):
        s.i = i

    def __eq__(s, o):
        return s is o

    def __hash__(s):
        return id(s)


class JsonOf:
    def __init__(s, of):
        s.of = of


class SymComplexV:
    def __init__(s, re, im):
        s.real, s.imag = re, im


class StrOf:
    """the text of the int n in the given notation ('dec' from str(), 'hex' from hex())"""

    def __init__(s, n, kind="dec"):
        s.n, s.kind = n, kind


def h_isinstance(x, t):
    ts = t if isinstance(t, tuple) else (t,)
    for cls, py in ((SymFloat, float), (SymInt, int), (SymStr, str), (ReprOf, str), (StrOf, str), (SymComplexV, complex)):
        if isinstance(x, cls):
            return any(isinstance(k, type) and issubclass(py, k) for k in ts)
    if isinstance(x, Opaque):
        return (bytes if x.tag == "bytes" else str) in ts
    if isinstance(x, (OpaqueConst, JsonOf)):
        return False
    return isinstance(x, t)


def h_isinf(x):
    return bool(SymBool(z3.fpIsInf(x.z))) if isinstance(x, SymFloat) else math.isinf(x)


def h_isnan(x):
    return bool(SymBool(z3.fpIsNaN(x.z))) if isinstance(x, SymFloat) else math.isnan(x)


_REFUSALS = [0]


def h_str(x):
    if isinstance(x, SymInt):
        # an interpreter with an int<->str digit limit may refuse an int whatever its size (the limit is configurable): both outcomes are explored
        _REFUSALS[0] += 1
        if Ctx.cur.decide(z3.Bool("str_refuses_the_int!%d" % _REFUSALS[0])):
            raise sem(ValueError("Exceeds the limit (4300) for integer string conversion"))
        return StrOf(x)
    return str(x)


def h_hex(x):
    return StrOf(x, "hex") if isinstance(x, SymInt) else hex(x)


def real_call(f, *a):
    """the real builtin on concrete values: what it raises is an outcome of the code under test, not of the harness"""
    try:
        return f(*a)
    except Exception as e:
        raise sem(e)


def h_int(x, base=10):
    if isinstance(x, StrOf):
        if x.kind == "hex" and base not in (0, 16):
            raise sem(ValueError("invalid literal for int() with base %d" % base))
        return x.n                   # assumed: int(str(n)) == n, int(str(n), 0) == n, int(hex(n), 0) == n
    if isinstance(x, (SymStr, ReprOf, Opaque)):
        raise Unsupported("int() of an opaque string")
    return real_call(int, x, base) if isinstance(x, str) else real_call(int, x)


def h_repr(x):
    return ReprOf(x) if isinstance(x, SymStr) else repr(x)


def h_literal_eval(x):
    if isinstance(x, ReprOf):
        return x.of                  # assumed: literal_eval(repr(s)) == s
    raise Unsupported("literal_eval of %r" % (x,))


def h_b64encode(x):
    return Opaque("b64", x) if isinstance(x, Opaque) else __import__("base64").b64encode(x)


def h_b64decode(x):
    if isinstance(x, Opaque) and x.tag == "b64text":
        return x.of                  # assumed: b64decode(b64encode(b).decode('ascii')) == b
    if isinstance(x, Opaque):
        raise Unsupported("b64decode")
    return __import__("base64").b64decode(x)


def h_float(x):
    return real_call(float, x)


def h_complex(a, b=0):
    return SymComplexV(a, b) if isinstance(a, SymFloat) or isinstance(b, SymFloat) else real_call(complex, a, b)


HOOKS = dict(isinstance=h_isinstance, isinf=h_isinf, isnan=h_isnan, str=h_str, hex=h_hex, int=h_int, repr=h_repr, ascii=h_repr, literal_eval=h_literal_eval,
             b64encode=h_b64encode, b64decode=h_b64decode, complex=h_complex, float=h_float)


def json_ns():
    def build():
        ns = rewrite.load(J, ["value_to_json", "constant_value_from_json"], hooks=HOOKS, tag="_json_data")
        v2j, c4j = ns["value_to_json"], ns["constant_value_from_json"]

        def mod_v2j(value):            # modular recursion: opaque container elements
            if isinstance(value, OpaqueConst):
                return JsonOf(value)
            return v2j(value)

        def mod_c4j(value):
            if isinstance(value, JsonOf):
                return value.of        # induction hypothesis
            return c4j(value)
        ns["value_to_json"], ns["constant_value_from_json"] = mod_v2j, mod_c4j
        return ns
    return cached("_json_data", build)


def plain(ctx, j, path="$"):
    if isinstance(j, dict):
        ctx.prove("plain.string_keys", z3.BoolVal(all(isinstance(k, str) for k in j)))
        for k, v in j.items():
            plain(ctx, v, path + "." + str(k))
    elif isinstance(j, list):
        for v in j:
            plain(ctx, v, path + "[]")
    elif isinstance(j, SymInt):
        ctx.prove("plain.int_within_2^53", z3.And(j.z >= -MAXI, j.z <= MAXI))
    elif isinstance(j, SymFloat):
        ctx.prove("plain.float_is_finite", z3.Not(z3.Or(z3.fpIsNaN(j.z), z3.fpIsInf(j.z))))
    elif isinstance(j, SymStr):
        ctx.prove("plain.string_is_valid_text", j.encodable)
    elif isinstance(j, (JsonOf, ReprOf, StrOf)) or j is None or isinstance(j, (bool, str)):
        ctx.reached("plain.scalar")
    elif isinstance(j, Opaque) and j.tag == "b64text":
        ctx.reached("plain.scalar")
    elif isinstance(j, int) and not isinstance(j, bool):
        ctx.prove("plain.int_within_2^53", z3.BoolVal(-MAXI <= j <= MAXI))
    elif isinstance(j, float):
        ctx.prove("plain.float_is_finite", z3.BoolVal(not (math.isnan(j) or math.isinf(j))))
    else:
        ctx.prove("plain.json_type", z3.BoolVal(False), detail="%s: %r" % (path, type(j).__name__))


def same(ctx, what, a, b):
    if isinstance(a, SymInt):
        ctx.prove(what, Z(b) == a.z if isinstance(b, (SymInt, int)) and not isinstance(b, bool) else z3.BoolVal(False))
    elif isinstance(a, SymFloat):
        if isinstance(b, float):
            b = SymFloat(z3.FPVal(b, z3.Float64()))
        if not isinstance(b, SymFloat):
            ctx.prove(what, z3.BoolVal(False), detail="type changed to %s" % type(b).__name__)
        else:
            ctx.prove(what, z3.Or(z3.And(z3.fpIsNaN(a.z), z3.fpIsNaN(b.z)), a.z == b.z))      # bit-exact, NaNs identified
    else:
        ctx.prove(what, z3.BoolVal(a is b or (type(a) is type(b) and a == b)), detail="%r vs %r" % (a, b))


CASES = {
    "int": lambda ctx: ctx.input("n", SymInt.fresh("n")),
    "float": lambda ctx: ctx.input("x", SymFloat.fresh("x")),
    "str": lambda ctx: SymStr("s"),
    "bytes": lambda ctx: Opaque("bytes"),
    "None": lambda ctx: None,
    "True": lambda ctx: True,
    "False": lambda ctx: False,
    "Ellipsis": lambda ctx: ...,
    "complex": lambda ctx: SymComplexV(ctx.input("re", SymFloat.fresh("re")), ctx.input("im", SymFloat.fresh("im"))),
    "tuple0": lambda ctx: (),
    "tuple3": lambda ctx: (OpaqueConst(0), OpaqueConst(1), OpaqueConst(2)),
    "frozenset0": lambda ctx: frozenset(),
    "frozenset2": lambda ctx: frozenset([OpaqueConst(0), OpaqueConst(1)]),
}


def _register():
    for name, mk in CASES.items():
        def h(ctx, cfg, name=name, mk=mk):
            ns = json_ns()
            v = mk(ctx)
            j = ns["value_to_json"](v)
            plain(ctx, j)
            back = ns["constant_value_from_json"](j)
            if name == "complex":
                ctx.prove("roundtrip.is_complex", z3.BoolVal(isinstance(back, (SymComplexV, complex))))
                same(ctx, "roundtrip.real_part_bit_exact", v.real, back.real)
                same(ctx, "roundtrip.imag_part_bit_exact", v.imag, back.imag)
            elif name.startswith("tuple"):
                ctx.prove("roundtrip.tuple_elementwise", z3.BoolVal(isinstance(back, tuple) and len(back) == len(v) and all(x is y for x, y in zip(v, back))))
            elif name.startswith("frozenset"):
                ctx.prove("roundtrip.frozenset", z3.BoolVal(isinstance(back, frozenset) and back == v))
            else:
                same(ctx, "roundtrip.value_type_and_bit_exact", v, back)
        harness("json.constant_codec.roundtrip[%s]" % name, props=["C07", "C06", "C15"], functions=["code_data._json_data.value_to_json", "code_data._json_data.constant_value_from_json"],
                configs="any",
                assumes=["b64decode(b64encode(b).decode('ascii')) == b", "ast.literal_eval(ascii(s)) == s and ast.literal_eval(repr(s)) == s for str", "int(str(n)) == n, int(str(n), 0) == n, int(hex(n), 0) == n; str(n) may raise ValueError (digit limit)",
                         "meta-step: structural induction over the constant datatype (container elements are the hypothesis)"],
                notes="symbolic payload: the encoded value is plain JSON (string keys, ints within +-2^53, finite floats, valid text) and decodes to the same value, "
                      "type- and bit-exact, NaNs identified; no earlier decoder branch shadows the tag")(h)


_register()


@harness("json.constant_codec.canary", props=["C07"], functions=["code_data._json_data.value_to_json"], configs="any", expect="failed",
         notes="known-false: every int is emitted as a JSON number")
def h_canary(ctx, cfg):
    ns = json_ns()
    n = SymInt.fresh("n")
    j = ns["value_to_json"](n)
    ctx.prove("canary.ints_never_tagged", z3.BoolVal(isinstance(j, SymInt)))


# ------------------------------------------------------------------ field positions: type-directed enumeration
def _instances():
    body = (Instruction("LOAD_CONST", Constant(1), None, 1),)
    return {
        "Jump": Jump(3, True), "Name": Name("n", 2), "Varname": Varname("v", 1), "Cellvar": Cellvar("c", 0), "Freevar": Freevar("f"), "NoArg": NoArg(5),
        "Constant(int)": Constant(7, 1), "Constant(tuple)": Constant((1, (2.5, "s"), b"b", None, ...), None), "Constant(frozenset)": Constant(frozenset([1, "a"])),
        "Constant(big)": Constant(2 ** 70), "Constant(negative and boundary ints)": Constant((-(2 ** 53), -(2 ** 53) - 1, -(2 ** 70), 2 ** 53, 2 ** 53 + 1, -(2 ** 53) + 1, 2 ** 53 - 1, -1, 0)), "Constant(bytes needing + and / in base64)": Constant((b"\xff\xfe?>", b"", b"\x00" * 5)),
        "Constant(mixed frozenset)": Constant(frozenset([1, "a", None, b"a", (1, 2)])), "Constant(float-specials)": Constant((float("inf"), float("-inf"), -0.0, 1j)),
        "Instruction": Instruction("OP", Name("x"), 3, 10, (1, 2)), "Instruction(int arg)": Instruction("CALL", 300, None, None),
        "Instruction(no arg, line offsets)": Instruction("POP_TOP", NoArg(), None, 7, (0, 3)),
        "Constant(complex specials)": Constant((complex(0.0, float("inf")), complex(-0.0, 2.0), complex(1.0, -0.0), complex(float("nan"), 0.0))),
        "AdditionalLine": AdditionalLine(5, (1, -2)), "AdditionalLine(None)": AdditionalLine(None),
        "Args": Args(("p",), ("a", "b"), "r", ("k",), "kw"), "Function": Function(Args(("p",)), "doc", "COROUTINE"),
        "CodeData": CodeData(blocks=(body, body), filename="f.py", first_line_number=3, name="nm", stacksize=2, type=Function(Args((), ("a",)), None, None), freevars=("fv",),
                             future_annotations=True, _nested=True, _additional_line=AdditionalLine(9, (0,)), _additional_args=(Name("an", 1), Constant((1, 2), 3))),
        "CodeData(lone surrogates everywhere)": CodeData(blocks=((Instruction("LOAD_NAME", Name("n\ud800", 1)), Instruction("LOAD_FAST", Varname("\udfffv")), Instruction("LOAD_DEREF", Cellvar("c\ud800")),
                                                                  Instruction("LOAD_DEREF", Freevar("f\ud800")), Instruction("LOAD_CONST", Constant(("\ud800", b"\xff")))),),
                                                        filename="file\ud800.py", first_line_number=1, name="nm\ud800", stacksize=1, freevars=("f\ud800",),
                                                        type=Function(Args(("p\ud800",), ("a\ud800",), "r\ud800", ("k\ud800",), "kw\ud800"), "doc \ud800 string")),
        "CodeData(nested, lone surrogate in the nested file name)": CodeData(blocks=((Instruction("LOAD_CONST", Constant(CodeData(blocks=(body,), filename="caf\udce9.py", first_line_number=1, name="in\udcffner", stacksize=1))),),),
                                     filename="caf\udce9.py", first_line_number=1, name="outer", stacksize=1),
        "CodeData(nested)": CodeData(blocks=((Instruction("LOAD_CONST", Constant(CodeData(blocks=(body,), filename="f.py", first_line_number=1, name="inner", stacksize=1))),),),
                                     filename="f.py", first_line_number=1, name="outer", stacksize=1),
    }


def _ints_beyond_2_53(j):
    if isinstance(j, bool):
        return []
    if isinstance(j, int):
        return [j] if abs(j) > 2 ** 53 - 1 else []
    if isinstance(j, dict):
        return [x for v in j.values() for x in _ints_beyond_2_53(v)]
    if isinstance(j, list):
        return [x for v in j for x in _ints_beyond_2_53(v)]
    return []


def _reversed_members(j):
    if isinstance(j, dict):
        return {k: _reversed_members(j[k]) for k in reversed(list(j))}
    if isinstance(j, list):
        return [_reversed_members(v) for v in j]
    return j


def _deep_immutable(x):
    import dataclasses
    if isinstance(x, (list, dict, set, bytearray)):
        return False
    if isinstance(x, (tuple, frozenset)):
        return all(_deep_immutable(e) for e in x)
    if dataclasses.is_dataclass(x) and not isinstance(x, type):
        return all(_deep_immutable(getattr(x, f.name)) for f in dataclasses.fields(x))
    return True


@harness("json.dataclass_positions.roundtrip", props=["C07", "C08", "C15", "C06", "C12"], functions=["code_data._json_data.value_to_json", "code_data._json_data.code_data_from_json",
                                                                            "code_data._json_data.instruction_from_json", "code_data._json_data.arg_from_json",
                                                                            "code_data._json_data.lists_values_to_tuples", "code_data.dataclass_hide_default.field_is_default"],
         configs="any", engine="E2",
         notes="bounded: one representative of every data class with every field set to a non-default value, and to its default: the document is plain JSON, "
               "defaults are omitted, and the decoder for that position reconstructs the value (concrete; the E3 corpus and edge-value grid widen this)")
def h_positions(ctx, cfg):
    import json
    from pcv import rewrite as rw
    for q in ("value_to_json", "code_data_from_json", "instruction_from_json", "arg_from_json", "lists_values_to_tuples"):
        rw.Source.of(J).get_def(q)
    inst = _instances()
    for name, v in inst.items():
        j = J.value_to_json(v)
        try:
            s = json.dumps(j, allow_nan=False)
            ok = True
        except Exception:
            ok = False
        ctx.prove("plain[%s]" % name, z3.BoolVal(ok))
        big = _ints_beyond_2_53(j)
        ctx.prove("integers_beyond_2^53_travel_as_strings[%s]" % name, z3.BoolVal(not big), detail=repr(big[:3]))
        doc = json.loads(s) if ok else None
        if isinstance(v, CodeData):
            back = J.code_data_from_json(doc)
        elif isinstance(v, Instruction):
            back = J.instruction_from_json(doc)
        elif isinstance(v, (Jump, Name, Varname, Cellvar, Freevar, NoArg, Constant)):
            back = J.arg_from_json(doc)
        elif isinstance(v, AdditionalLine):
            back = AdditionalLine(**J.lists_values_to_tuples(doc))
        elif isinstance(v, Args):
            back = Args(**J.lists_values_to_tuples(doc))
        elif isinstance(v, Function):
            back = J.code_data_from_json({"blocks": [], "filename": "f", "first_line_number": 1, "name": "n", "stacksize": 1, "type": doc}).type
        else:
            back = None
        ctx.prove("roundtrip[%s]" % name, z3.BoolVal(back == v and type(back) is type(v) and (repr(back) == repr(v) or "frozenset" in repr(v))), detail="%r -> %r" % (v, back))
        if ok and isinstance(v, (CodeData, Instruction, Jump, Name, Varname, Cellvar, Freevar, NoArg, Constant)):
            # JSON objects are unordered: the same document with its members sorted, and reversed, loads to the same value
            dec = J.code_data_from_json if isinstance(v, CodeData) else J.instruction_from_json if isinstance(v, Instruction) else J.arg_from_json
            for how, text in (("sorted", json.dumps(j, sort_keys=True)), ("reversed", json.dumps(_reversed_members(j)))):
                try:
                    again, det = dec(json.loads(text)), None
                except Exception as e:
                    again, det = None, "%s: %s" % (type(e).__name__, e)
                ctx.prove("member_order_is_irrelevant[%s,%s]" % (name, how), z3.BoolVal(again == v), detail=det or repr(again)[:200])
        if ok:
            again = J.value_to_json(back)
            ctx.prove("reserializes_to_the_identical_document[%s]" % name, z3.BoolVal(json.dumps(again, sort_keys=True) == json.dumps(doc, sort_keys=True) or "frozenset" in s))
        try:
            hash(back)
            hashable = True
        except TypeError:
            hashable = False
        ctx.prove("loaded_value_is_hashable[%s]" % name, z3.BoolVal(hashable))
    # explicit defaults spelled out by a hand-written, schema-valid document: the result must not alias the document
    doc = {"blocks": [[{"name": "NOP", "_line_offsets_override": [], "arg": {"name": "n"}}]], "filename": "f", "first_line_number": 1, "name": "n", "stacksize": 1, "freevars": [],
           "_additional_args": [], "type": {"args": {"positional_only": [], "positional_or_keyword": ["a"], "keyword_only": []}},
           "_additional_line": {"line": 3, "additional_offsets": [1, 2]}}
    loaded = J.code_data_from_json(json.loads(json.dumps(doc)))
    ctx.prove("loaded_value_holds_no_mutable_container(explicit empty arrays included)", z3.BoolVal(_deep_immutable(loaded)), detail=repr(loaded))
    for name, v in inst.items():
        if isinstance(v, CodeData):
            ctx.prove("loaded_value_holds_no_mutable_container[%s]" % name, z3.BoolVal(_deep_immutable(J.code_data_from_json(json.loads(json.dumps(J.value_to_json(v)))))))
    # the published schema accepts the document of every CodeData representative (independent jsonschema library)
    try:
        import jsonschema
        validator = jsonschema.Draft7Validator(code_data.JSON_SCHEMA)
    except Exception as e:
        raise Unsupported("jsonschema unavailable: %s" % e)
    for name, v in inst.items():
        if isinstance(v, CodeData):
            doc = json.loads(json.dumps(J.value_to_json(v), allow_nan=False))
            errs = list(validator.iter_errors(doc))
            ctx.prove("schema_valid[%s]" % name, z3.BoolVal(not errs), detail=errs[0].message[:200] if errs else None)
    # ... and the definition the schema publishes for each data class accepts the document of that class's representatives (an instruction operand also
    # matches the catch-all NoArg alternative inside a whole document, so the definitions are validated one by one)
    defs = code_data.JSON_SCHEMA.get("definitions", {})
    for name, v in inst.items():
        dname = type(v).__name__
        if dname not in defs or name == "AdditionalLine(None)":      # a line-less additional line cannot come out of decoding (C07 speaks of decoded/normalized data)
            continue
        doc = json.loads(json.dumps(J.value_to_json(v), allow_nan=False))
        errs = list(jsonschema.Draft7Validator({"$ref": "#/definitions/" + dname, "definitions": defs}).iter_errors(doc))
        ctx.prove("definition_accepts_its_own_documents[%s]" % name, z3.BoolVal(not errs), detail=("%s: %s" % (list(errs[0].absolute_path), errs[0].message[:160])) if errs else None)
    # defaults are omitted
    ctx.prove("defaults_omitted", z3.BoolVal(J.value_to_json(Name("n")) == {"name": "n"} and J.value_to_json(Instruction("X")) == {"name": "X"}))


@harness("json.defaults_and_field_order", props=["C07", "C15", "C08"], functions=["code_data._json_data.value_to_json", "code_data.dataclass_hide_default.field_is_default", "code_data (data classes)"],
         configs="any", engine="E2",
         notes="bounded (every data class): an instance built from required fields only serializes to exactly its required keys and loads back to itself; every optional field set to a "
               "non-default value appears under its own name")
def h_defaults(ctx, cfg):
    import dataclasses
    import json
    from pcv import rewrite as rw
    rw.Source.of(J).get_def("value_to_json")
    body = (Instruction("RETURN_VALUE"),)
    minimal = {
        "Jump": (Jump(0), {"target": 0}), "Name": (Name("n"), {"name": "n"}), "Varname": (Varname("v"), {"varname": "v"}), "Cellvar": (Cellvar("c"), {"cellvar": "c"}),
        "Freevar": (Freevar("f"), {"freevar": "f"}), "NoArg": (NoArg(), {}), "Constant": (Constant(None), {"constant": None}), "Constant(False)": (Constant(False), {"constant": False}),
        "Constant(0)": (Constant(0), {"constant": 0}), "Constant('')": (Constant(""), {"constant": ""}), "Constant(())": (Constant(()), {"constant": []}),
        "Instruction": (Instruction("X"), {"name": "X"}), "AdditionalLine": (AdditionalLine(None), {"line": None}), "AdditionalLine(0)": (AdditionalLine(0), {"line": 0}),
        "Args": (Args(), {}), "Function": (Function(), {}),
        "CodeData": (CodeData(blocks=(body,), filename="f", first_line_number=0, name="", stacksize=0), {"blocks": [[{"name": "RETURN_VALUE"}]], "filename": "f", "first_line_number": 0, "name": "", "stacksize": 0}),
    }
    for name, (v, want) in minimal.items():
        got = J.value_to_json(v)
        ctx.prove("defaults_omitted_required_kept[%s]" % name, z3.BoolVal(json.dumps(got, sort_keys=True) == json.dumps(want, sort_keys=True) and _same_types(got, want)), detail="%r -> %r" % (v, got))
    # whatever field of CodeData is left out because it holds its default, a *nested* code constant is still recognised as code and reads back equal
    # (the decoder tells nested code from tagged constants by the keys it finds)
    base = dict(blocks=(body,), filename="<unknown>", first_line_number=0, name="<module>", stacksize=0)
    with_defaults = [("none", {})]
    for f in dataclasses.fields(CodeData):
        if f.default is not dataclasses.MISSING:
            with_defaults.append((f.name, {f.name: f.default}))
        elif f.default_factory is not dataclasses.MISSING:
            with_defaults.append((f.name, {f.name: f.default_factory()}))
    all_defaults = {}
    for _, kw in with_defaults:
        all_defaults.update(kw)
    with_defaults.append(("every optional field", all_defaults))
    for label, kw in with_defaults:
        inner = CodeData(**dict(base, **kw))
        outer = CodeData(blocks=((Instruction("LOAD_CONST", Constant(inner)), Instruction("LOAD_CONST", Constant(inner, 2))),), filename="o.py", first_line_number=1, name="o", stacksize=1,
                         _additional_args=(Constant(inner, 3),))
        try:
            back = J.code_data_from_json(json.loads(json.dumps(J.value_to_json(outer), allow_nan=False)))
            ok, det = back == outer, None if back == outer else repr(back)[:300]
        except Exception as e:
            ok, det = False, "%s: %s" % (type(e).__name__, e)
        ctx.prove("nested_code_with_a_field_at_its_default_reads_back[%s]" % label, z3.BoolVal(ok), detail=det)
    # falsy but non-default values must NOT be dropped
    falsy = {"Jump.relative": (Jump(0, True), "relative"), "Name._index_override=0": (Name("n", 0), "_index_override"), "Instruction.line_number=0": (Instruction("X", NoArg(), None, 0), "line_number"),
             "Instruction.arg=0": (Instruction("X", 0), "arg"), "NoArg._arg": (NoArg(5), "_arg"), "Function.docstring=''": (Function(Args(), ""), "docstring"),
             "CodeData.future_annotations": (CodeData(blocks=(body,), filename="f", first_line_number=1, name="n", stacksize=1, future_annotations=True), "future_annotations"),
             "CodeData.type=Function()": (CodeData(blocks=(body,), filename="f", first_line_number=1, name="n", stacksize=1, type=Function()), "type")}
    for name, (v, key) in falsy.items():
        got = J.value_to_json(v)
        ctx.prove("non_default_field_is_written[%s]" % name, z3.BoolVal(key in got), detail=repr(got))


def _same_types(a, b):
    if type(a) is not type(b):
        return False
    if isinstance(a, dict):
        return all(_same_types(a[k], b[k]) for k in a)
    if isinstance(a, list):
        return all(_same_types(x, y) for x, y in zip(a, b))
    return True


@harness("json.non_utf8_strings_are_written_in_ascii", props=["C15", "C07"], functions=["code_data._json_data.value_to_json", "code_data._json_data.constant_value_from_json"], configs="any", engine="E2",
         notes="bounded (representatives): a string that cannot be UTF-8 encoded (lone surrogates) is written as {'string': <ASCII-only literal>} whatever other characters it holds - "
               "characters whose printability differs between Unicode versions (U+1F90D: 12.0, U+1FAE0: 14.0, U+1FAE8: 15.0, U+0378: unassigned) included - so the document "
               "does not depend on the interpreter that wrote it; and it reads back exactly")
def h_surrogates_ascii(ctx, cfg):
    from pcv import rewrite as rw
    rw.Source.of(J).get_def("value_to_json")
    reps = ["'\ud800", "\ud800'", '"\ud800"', "\ud800\\", "''\udc80''", "\ud800", "a\udfffb", "\ud800é", "🤍 \udc80", "x\ud800\U0001F90D", "\udc00\U0001FAE0", "\udc00\U0001FAE8", "\udc00͸", "\ud800'\"\\\n\t\x00\x7f\x85 ", "\ud800" + "\U0010FFFF"]
    for i, v in enumerate(reps):
        for where, wrap, unwrap in (("constant", lambda x: Constant(x), lambda j: j["constant"]), ("name", lambda x: Name(x), lambda j: j["name"]),
                                    ("docstring", lambda x: Function(Args(), x), lambda j: j["docstring"])):
            got = unwrap(J.value_to_json(wrap(v)))
            ctx.prove("lone_surrogate_string_is_tagged[%s]" % where, z3.BoolVal(isinstance(got, dict) and list(got) == ["string"] and isinstance(got["string"], str)), detail=repr(got))
            if isinstance(got, dict) and isinstance(got.get("string"), str):
                ctx.prove("written_in_ascii_only[%s]" % where, z3.BoolVal(all(ord(c) < 128 for c in got["string"])), detail="%d: %r" % (i, got["string"]))
                back = J.constant_value_from_json(got) if hasattr(J, "constant_value_from_json") else None
                ctx.prove("reads_back_exactly[%s]" % where, z3.BoolVal(back == v and type(back) is str), detail="%r -> %r" % (v, back))


@harness("json.data_class_fields_as_the_contracts_were_written", props=["C07", "C15"], functions=["code_data (data classes)"], configs="any", engine="E2", soft=True,
         notes="the fields of each data class and their order are the ones the sidecar contracts construct values with; a new or moved field makes those contracts stale, it refutes nothing (soft)")
def h_fields_as_written(ctx, cfg):
    import dataclasses
    want_fields = {
        "CodeData": ["blocks", "filename", "first_line_number", "name", "stacksize", "type", "freevars", "future_annotations", "_nested", "_additional_line", "_additional_args"],
        "Instruction": ["name", "arg", "_n_args_override", "line_number", "_line_offsets_override"], "Jump": ["target", "relative"], "Name": ["name", "_index_override"],
        "Varname": ["varname", "_index_override"], "Constant": ["constant", "_index_override"], "Freevar": ["freevar"], "Cellvar": ["cellvar", "_index_override"], "NoArg": ["_arg"],
        "Args": ["positional_only", "positional_or_keyword", "var_positional", "keyword_only", "var_keyword"], "Function": ["args", "docstring", "type"], "AdditionalLine": ["line", "additional_offsets"]}
    for cls in (CodeData, Instruction, Jump, Name, Varname, Constant, Freevar, Cellvar, NoArg, Args, Function, AdditionalLine):
        ctx.prove("fields_and_order[%s]" % cls.__name__, z3.BoolVal([f.name for f in dataclasses.fields(cls)] == want_fields[cls.__name__]), detail=repr([f.name for f in dataclasses.fields(cls)]))
