"""Sidecar contracts and harnesses for /repo/code_data.  Importing this package registers every harness.
/repo is never annotated; each harness re-reads the function source from /repo when it runs."""
from . import c_blocks  # noqa: F401
from . import c_args  # noqa: F401
from . import c_flags  # noqa: F401
from . import c_normalize  # noqa: F401
from . import c_constants  # noqa: F401
from . import c_line_mapping  # noqa: F401
from . import c_json  # noqa: F401
from . import c_code_data  # noqa: F401
from . import c_frame  # noqa: F401
from . import c_blocks2  # noqa: F401
from . import c_blocks3  # noqa: F401
from . import c_cli  # noqa: F401
