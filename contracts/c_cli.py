"""Contract for code_data/_cli.py `main` (C16), verified modularly by a complete finite case split (no solver involved):
every external (`parser.parse_args`, `parser.error`, `compile`, `eval`, `importlib.util.find_spec`, `CodeData.from_code`,
`normalize`, `to_json_data`, `to_code`, `Console.print`, `JSON.from_data`, `dis.dis`, `show_code_recursive`) is a stub that carries a
contract and writes to a ghost output log.  `main` inspects its inputs only through truthiness and `is None`, so
{absent, empty, non-empty}^4 source options x 2^5 flags is complete for its decision logic."""
from __future__ import annotations

import itertools
import types

import z3

from pcv import rewrite
from pcv.registry import harness
from .util import cached


def cli_module():
    import importlib
    return importlib.import_module("code_data._cli")


class UsageError(Exception):
    pass


class ExitStatus(Exception):
    pass


def run_main(file, cmd, ev, mod, flags):
    M = cli_module()
    ns = cached("_cli.main", lambda: rewrite.load(M, ["main"], hooks={"compile": None, "eval": None}, tag="_cli.main"))
    log = []

    class Path:
        def __init__(self, text, name):
            self.text, self.name = text, name

        def read_text(self, *a, **kw):
            return self.text

        def __str__(self):
            return self.name

        # the rest of pathlib's contract for a *relative* path that was given: these return another path object that names the same file differently
        def resolve(self, strict=False):
            return Path(self.text, "/cwd/" + self.name)

        absolute = resolve

        def expanduser(self):
            return Path(self.text, self.name)

        def __fspath__(self):
            return self.name

        def exists(self):
            return True

        is_file = exists

        def open(self, *a, **kw):
            import io
            return io.StringIO(self.text)

    args = types.SimpleNamespace(file=(None if file is None else Path(file, "prog.py")), c=cmd, e=ev, m=mod, dis=flags["dis"], source=flags["source"],
                                 dis_after=flags["dis_after"], no_normalize=flags["no_normalize"], json=flags["json"])

    class Parser:
        def parse_args(self):
            return args

        def parse_known_args(self):
            log.append(("parse_known_args",))
            return args, ["extra_positional.py"]       # argparse would have rejected this with a usage error

        def error(self, msg):
            raise UsageError(msg)

        # the rest of argparse's contract: exit(status=0) ends the process with that status, printing helpers only print
        def exit(self, status=0, message=None):
            raise ExitStatus(status)

        def print_help(self, file=None):
            log.append(("print_help",))

        def print_usage(self, file=None):
            log.append(("print_usage",))
    ns["parser"] = Parser()
    argv = ["python-code-data"] + (["prog.py"] if file is not None else []) + [x for o, v in (("-c", cmd), ("-e", ev), ("-m", mod)) if v is not None for x in (o, v)]
    argv += ["--" + f.replace("_", "-") for f in FLAGS if flags[f]]

    def sys_exit(status=0):
        raise ExitStatus(status)
    ns["sys"] = types.SimpleNamespace(argv=argv, exit=sys_exit, stdout=None, stderr=None, version_info=(3, 10, 0))
    ns["exit"] = sys_exit
    ns["pvhook_compile"] = lambda src, fn, mode: ("CODE", src, fn, mode)
    class EvalStr(str):
        """the program text an -e expression evaluates to (kept by identity: nothing may rewrite it)"""
    def eval_stub(s, globals_=None, locals_=None):
        # contract of eval for an -e expression: names used inside comprehensions, generator expressions and lambdas of the expression are looked up in
        # the *globals* mapping, so that is where `linesep` has to be
        log.append(("eval", s, globals_, locals_))
        return EvalStr("EVALUATED:" + s)
    ns["pvhook_eval"] = eval_stub

    class CD:
        def __init__(self, of, normalized=False):
            self.of, self.normalized = of, normalized

        def to_json_data(self):
            return ("JSON-OF", self)

        def to_code(self):
            return ("CODE-OF", self)

    class CodeDataStub:
        @staticmethod
        def from_code(code):
            log.append(("from_code", code))
            return CD(code)
    ns["CodeData"] = CodeDataStub
    ns["normalize"] = lambda cd: CD(cd.of, True)

    class Console:
        def print(self, x, **kw):
            log.append(("print", x))
    ns["Console"] = Console
    ns["Syntax"] = lambda source, lang, line_numbers=False: ("SYNTAX", source)

    class JSON:
        @classmethod
        def from_data(cls, data, **kw):
            return ("JSON-TEXT", data)
    ns["JSON"] = JSON
    ns["show_code_recursive"] = lambda code: log.append(("show_code", code))
    ns["dis"] = types.SimpleNamespace(dis=lambda code: log.append(("dis", code)), show_code=lambda c: None)
    # contract of importlib.util.find_spec in the most adversarial universe: every name is a package that also has a __main__ submodule
    def find_spec(m, package=None):
        log.append(("find_spec", m))

        def checked(kind):
            def get(fullname):
                if fullname != m:
                    raise ImportError("loader for %s cannot handle %s" % (m, fullname))
                return (kind, m)
            return get
        loader = types.SimpleNamespace(get_code=checked("MODCODE"), get_source=checked("MODSRC"), is_package=lambda fullname: not m.endswith(".__main__"), name=m)
        return types.SimpleNamespace(name=m, loader=loader, origin="/lib/%s.py" % m, parent=m.rpartition(".")[0], has_location=True, cached=None,
                                     submodule_search_locations=None if m.endswith(".__main__") else ["/lib/" + m])
    ns["importlib"] = types.SimpleNamespace(util=types.SimpleNamespace(find_spec=find_spec), import_module=lambda m: (_ for _ in ()).throw(AssertionError("the module must not be imported (executed)")))
    try:
        ns["main"]()
        return "ok", log
    except UsageError as e:
        return "usage", log
    except ExitStatus as e:
        return ("usage" if e.args[0] == 2 else "exit status %r" % (e.args[0],)), log


VALS = [None, "", "x = 1\\n\x0cy = '\u00e9 \u2028 \\\\t'\r\nz = '\x1c'\n"]      # escaped newline, form feed, U+2028, CR LF, a trailing newline: the text is taken as it is
FLAGS = ["dis", "source", "dis_after", "no_normalize", "json"]


@harness("cli.main.contract", props=["C16"], functions=["code_data._cli.main"], configs="any", cost=3,
         assumes=["argparse fills args.file/c/e/m with None when the option is absent and with the given string otherwise",
                  "callee contracts: compile, eval, CodeData.from_code, normalize, to_json_data, to_code, Console.print, JSON.from_data, dis.dis"],
         notes="complete case split: 3^4 source-option shapes x 2^5 flag sets = 2,592 cases on the real `main` with stubbed externals: usage error iff not exactly one source is "
               "given; otherwise the printed object is normalize(from_code(code)) (un-normalized with --no-normalize), the JSON is to_json_data() of that same object, and "
               "--dis-after disassembles to_code() of it")
def h_main(ctx, cfg):
    rewrite.Source.of(cli_module()).get_def("main")
    n = 0
    for file, cmd, ev, mod in itertools.product(VALS, repeat=4):
        given = [x is not None for x in (file, cmd, ev, mod)]
        for bits in itertools.product([False, True], repeat=5):
            flags = dict(zip(FLAGS, bits))
            n += 1
            try:
                outcome, log = run_main(file, cmd, ev, mod, flags)
            except Exception as e:
                ctx.prove("main.no_unexpected_exception", z3.BoolVal(False), detail="%s: %s for %r %r" % (type(e).__name__, e, (file, cmd, ev, mod), flags))
                continue
            case = "sources=%r" % ([v for v in (file, cmd, ev, mod)],)
            if ("parse_known_args",) in log and outcome == "ok":
                ctx.prove("unrecognised_arguments_are_never_silently_dropped", z3.BoolVal(False), detail=case)
            if sum(given) != 1:
                ctx.prove("usage_error_iff_not_exactly_one_source_given", z3.BoolVal(outcome == "usage" and not [e for e in log if e[0] == "print"]), detail=case)
                continue
            ctx.prove("exits_normally_with_exactly_one_source(incl. an empty string)", z3.BoolVal(outcome == "ok"), detail=case)
            if outcome != "ok":
                continue
            fc = [e for e in log if e[0] == "from_code"]
            ctx.prove("decodes_exactly_one_code_object", z3.BoolVal(len(fc) == 1))
            code = fc[0][1]
            if cmd is not None:
                want = ("CODE", cmd.replace("\\n", "\n"), "<string>", "exec")
            elif ev is not None:
                want = ("CODE", "EVALUATED:" + ev, "<string>", "exec")
            elif file is not None:
                want = ("CODE", file, "prog.py", "exec")
            else:
                want = ("MODCODE", mod)
            ctx.prove("the_decoded_code_is_the_given_program_compiled_in_exec_mode", z3.BoolVal(code == want), detail="%r vs %r" % (code, want))
            if ev is not None:
                evs = [e for e in log if e[0] == "eval"]
                ctx.prove("-e_expression_is_evaluated_once_with_linesep_among_its_globals", z3.BoolVal(len(evs) == 1 and evs[0][1] == ev and isinstance(evs[0][2], dict) and
                          isinstance(evs[0][2].get("linesep"), str)), detail=repr(evs))
            ctx.prove("unrecognised_arguments_are_never_silently_dropped", z3.BoolVal(("parse_known_args",) not in log))
            prints = [e[1] for e in log if e[0] == "print"]
            cds = [p for p in prints if hasattr(p, "normalized")]
            ctx.prove("prints_exactly_one_CodeData", z3.BoolVal(len(cds) == 1))
            if len(cds) != 1:
                continue
            cd = cds[0]
            ctx.prove("printed_CodeData_is_from_code_of_that_code", z3.BoolVal(cd.of is code))
            ctx.prove("printed_CodeData_is_normalized_unless_--no-normalize", z3.BoolVal(cd.normalized == (not flags["no_normalize"])))
            jsons = [p for p in prints if isinstance(p, tuple) and p[0] == "JSON-TEXT"]
            ctx.prove("json_printed_iff_--json", z3.BoolVal(len(jsons) == (1 if flags["json"] else 0)))
            if jsons:
                ctx.prove("json_is_to_json_data_of_the_printed_object", z3.BoolVal(jsons[0][1] == ("JSON-OF", cd) and jsons[0][1][1] is cd))
            dises = [e[1] for e in log if e[0] == "dis"]
            want_dis = ([code] if flags["dis"] else []) + ([("CODE-OF", cd)] if flags["dis_after"] else [])
            ctx.prove("--dis shows the program's code, --dis-after shows to_code() of the printed object",
                      z3.BoolVal(len(dises) == len(want_dis) and all((a is b) or (isinstance(a, tuple) and a[0] == "CODE-OF" and a[1] is b[1]) for a, b in zip(dises, want_dis))), detail=case)
            srcs = [p for p in prints if isinstance(p, tuple) and p[0] == "SYNTAX"]
            ctx.prove("source_printed_iff_--source", z3.BoolVal(len(srcs) == (1 if flags["source"] else 0)))
    ctx.prove("cases_enumerated", z3.BoolVal(n == 81 * 32))
    # two options carrying the *same* text are still two sources
    outcome, log = run_main(None, "json", None, "json", dict(zip(FLAGS, [False] * 5)))
    ctx.prove("equal_texts_in_two_options_are_two_sources", z3.BoolVal(outcome == "usage"))


@harness("cli.parser.contract", props=["C16"], functions=["code_data._cli.parser"], configs="any", engine="E2",
         notes="bounded (representative texts): discharges, on the module's real argparse parser, the contract that `main`'s proof assumes of parse_args - each source option delivers "
               "exactly the text that was given (also an empty text, a text with spaces/newlines/non-ASCII, a text starting with '@' such as a decorated def), absent options are None, "
               "flags default to False, the positional file becomes a path of that name; an unknown option or an extra positional is a usage error")
def h_parser(ctx, cfg):
    import contextlib
    import io
    M = cli_module()
    parser = M.parser
    texts = ["x = 1", "", "@staticmethod\ndef f(): pass", "a = 'b c'\nprint(a)", "x = '\u00e9 \u4e16'", "@args.txt", "1 if x else 2", "=x", "x=1 # -c --json", "-1"]

    def parse(argv):
        err = io.StringIO()
        try:
            with contextlib.redirect_stderr(err), contextlib.redirect_stdout(io.StringIO()):
                return parser.parse_args(argv), None
        except SystemExit as e:
            return None, (e.code, err.getvalue().strip()[-120:])
    for t in texts:
        for opt, attr in (("-c", "c"), ("-e", "e"), ("-m", "m")):
            ns, err = parse([opt, t])
            ok = ns is not None and getattr(ns, attr) == t and all(getattr(ns, a) is None for a in ("c", "e", "m", "file") if a != attr) and not any(
                getattr(ns, f) for f in ("dis", "source", "dis_after", "no_normalize", "json"))
            ctx.prove("option_delivers_exactly_the_given_text[%s]" % opt, z3.BoolVal(ok), detail="%r -> %r %r" % (t, ns, err))
            ns, err = parse([opt, t, "--json", "--no-normalize"])
            ctx.prove("flags_are_independent_of_the_source_text[%s]" % opt, z3.BoolVal(ns is not None and getattr(ns, attr) == t and ns.json and ns.no_normalize and not ns.dis and not ns.dis_after and not ns.source),
                      detail="%r -> %r %r" % (t, ns, err))
    for glued, attr, val in (("-cx=1", "c", "x=1"), ("-mjson.tool", "m", "json.tool"), ("-e'x'", "e", "'x'"), ("-cpass", "c", "pass")):
        ns, err = parse([glued])
        ctx.prove("a_short_option_with_its_value_glued_on_delivers_the_value", z3.BoolVal(ns is not None and getattr(ns, attr) == val), detail="%r -> %r %r" % (glued, ns, err))
    for name in ("prog.py", "dir/prog.py", "@prog.py", "a b.py"):
        ns, err = parse([name])
        ctx.prove("positional_file_is_a_path_of_that_name", z3.BoolVal(ns is not None and ns.file is not None and str(ns.file) == name and ns.c is None and ns.e is None and ns.m is None), detail="%r -> %r %r" % (name, ns, err))
    ns, err = parse([])
    ctx.prove("no_arguments_parse_to_all_absent", z3.BoolVal(ns is not None and ns.file is None and ns.c is None and ns.e is None and ns.m is None), detail=repr((ns, err)))
    for argv in (["--unknown-flag", "-c", "x"], ["a.py", "b.py"], ["-c"], ["--js"] if False else ["-c", "x", "extra.py", "more.py"]):
        ns, err = parse(argv)
        ctx.prove("unknown_options_and_extra_positionals_are_usage_errors", z3.BoolVal(ns is None and err[0] == 2), detail="%r -> %r %r" % (argv, ns, err))
