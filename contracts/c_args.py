"""Contracts for code_data/_args.py against CPython's calling convention.

Spec (Objects/codeobject.c, Lib/inspect.py `_signature_from_function`): co_varnames starts with the positional parameters
(positional-only first), then the keyword-only parameters, then the *args name if CO_VARARGS, then the **kwargs name if
CO_VARKEYWORDS.
"""
from __future__ import annotations

import itertools

import z3

import code_data._args as A
from code_data import Args

from pcv import rewrite
from pcv.core import Ctx, SymInt, SymName, SymSeq, Unsupported, plen, zint
from pcv.registry import harness
from .util import Z, cached


def args_ns():
    return cached("_args", lambda: rewrite.load(A, ["args_from_input", "args_to_input", "args_to_varnames", "ArgsInput"], hooks={"len": plen}, tag="_args"))


def spec_layout(v, argc, pos, kw, va, vk):
    return dict(positional_only=z3.SubSeq(v, 0, pos), positional_or_keyword=z3.SubSeq(v, pos, argc - pos),
                keyword_only=z3.SubSeq(v, argc, kw), var_positional=v[argc + kw], var_keyword=v[argc + kw + (1 if va else 0)])


def _inputs(ctx, va, vk):
    ctx.set_timeout(3000)      # z3's sequence solver is unstable on the concatenation claims; cvc5 --strings-exp decides what it leaves open
    v = SymSeq.fresh("varnames")
    argc, pos, kw = (ctx.input(n, SymInt.fresh(n)) for n in ("argcount", "posonlyargcount", "kwonlyargcount"))
    ctx.input("varnames", v)
    ctx.assume(z3.And(0 <= pos.z, pos.z <= argc.z, 0 <= kw.z, argc.z + kw.z + (1 if va else 0) + (1 if vk else 0) <= z3.Length(v.s)),
               "pre: WF what CPython's code constructor enforces (counts fit co_varnames)")
    return v, argc, pos, kw


def _register():
    for va, vk in itertools.product([False, True], repeat=2):
        def h_from(ctx, cfg, va=va, vk=vk):
            ns = args_ns()
            v, argc, pos, kw = _inputs(ctx, va, vk)
            flags = set(["VARARGS"] * va + ["VARKEYWORDS"] * vk + ["OPTIMIZED", "NEWLOCALS"])
            res = ns["args_from_input"](ns["ArgsInput"](argc, pos, kw, v, flags))
            sp = spec_layout(v.s, argc.z, pos.z, kw.z, va, vk)
            ctx.prove("post.positional_only == varnames[:posonly]", res.positional_only.s == sp["positional_only"])
            ctx.prove("post.positional_or_keyword == varnames[posonly:argcount]", res.positional_or_keyword.s == sp["positional_or_keyword"])
            ctx.prove("post.keyword_only == varnames[argcount:argcount+kwonly]", res.keyword_only.s == sp["keyword_only"])
            if va:
                ctx.prove("post.var_positional == varnames[argcount+kwonly]", Z(res.var_positional) == sp["var_positional"])
            else:
                ctx.prove("post.var_positional is None without CO_VARARGS", z3.BoolVal(res.var_positional is None))
            if vk:
                ctx.prove("post.var_keyword == varnames[argcount+kwonly+[VARARGS]]", Z(res.var_keyword) == sp["var_keyword"])
            else:
                ctx.prove("post.var_keyword is None without CO_VARKEYWORDS", z3.BoolVal(res.var_keyword is None))
            ctx.prove("frame.consumes_exactly_VARARGS_and_VARKEYWORDS", z3.BoolVal(flags == {"OPTIMIZED", "NEWLOCALS"}))
        harness("args.args_from_input.cpython_layout[VARARGS=%d,VARKEYWORDS=%d]" % (va, vk), props=["C04", "C01"],
                functions=["code_data._args.args_from_input"], configs="any",
                notes="all counts 0 <= posonly <= argcount, kwonly >= 0 and every co_varnames of any length (z3 sequences)")(h_from)

        def h_rt(ctx, cfg, va=va, vk=vk):
            ns = args_ns()
            v, argc, pos, kw = _inputs(ctx, va, vk)
            # names are non-empty strings: model the two optional names as opaque ids with truthiness True
            flags = set(["VARARGS"] * va + ["VARKEYWORDS"] * vk + ["OPTIMIZED"])
            a = ns["args_from_input"](ns["ArgsInput"](argc, pos, kw, v, flags))
            if a.var_positional is not None:
                object.__setattr__(a, "var_positional", SymName(Z(a.var_positional)))
            if a.var_keyword is not None:
                object.__setattr__(a, "var_keyword", SymName(Z(a.var_keyword)))
            out_flags = {"OPTIMIZED"}
            back = ns["args_to_input"](a, out_flags)
            n = argc.z + kw.z + (1 if va else 0) + (1 if vk else 0)
            ctx.prove("roundtrip.argcount", Z(back.argcount) == argc.z)
            ctx.prove("roundtrip.posonlyargcount", Z(back.posonlyargcount) == pos.z)
            ctx.prove("roundtrip.kwonlyargcount", Z(back.kwonlyargcount) == kw.z)
            ctx.prove("roundtrip.flags", z3.BoolVal(back.flags_data == set(["VARARGS"] * va + ["VARKEYWORDS"] * vk + ["OPTIMIZED"])))
            ctx.prove("roundtrip.varnames_is_the_parameter_prefix_of_co_varnames", back.varnames.s == z3.SubSeq(v.s, 0, n))
            ctx.prove("post.varnames_length_is_total_parameter_count", z3.Length(back.varnames.s) == n)
        harness("args.args_to_input(args_from_input).roundtrip[VARARGS=%d,VARKEYWORDS=%d]" % (va, vk), props=["C01", "C04", "C03", "C05", "C06"],
                functions=["code_data._args.args_from_input", "code_data._args.args_to_input", "code_data._args.args_to_varnames"], configs="any",
                assumes=["WF: parameter names are non-empty strings"],
                notes="argcount, posonlyargcount, kwonlyargcount, the two flags and the parameter prefix of co_varnames are reproduced, for all counts and lengths")(h_rt)


_register()


@harness("args.args_from_input.canary", props=["C04"], functions=["code_data._args.args_from_input"], configs="any", expect="failed",
         notes="known-false: the *args name is taken before the keyword-only names")
def h_canary(ctx, cfg):
    ns = args_ns()
    v, argc, pos, kw = _inputs(ctx, True, False)
    res = ns["args_from_input"](ns["ArgsInput"](argc, pos, kw, v, {"VARARGS"}))
    ctx.prove("canary.var_positional == varnames[argcount]", Z(res.var_positional) == v.s[argc.z])


@harness("args.parameters_and_len[lengths<=2]", props=["C04"], functions=["code_data._args.args_to_parameters", "code_data.Args.__len__", "code_data.Args.parameters"],
         configs="any", engine="E2",
         notes="bounded: 0-2 names per group, both optional names; order and kinds of Args.parameters equal the signature order CPython reports, len(args) is the total (concrete enumeration, 324 shapes)")
def h_params(ctx, cfg):
    from inspect import _ParameterKind as K
    n = 0
    for po, pk, va, ko, vk in itertools.product(range(3), range(3), (0, 1), range(3), (0, 1)):
        a = Args(tuple("p%d" % i for i in range(po)), tuple("a%d" % i for i in range(pk)), "rest" if va else None, tuple("k%d" % i for i in range(ko)), "kw" if vk else None)
        want = ([(x, K.POSITIONAL_ONLY) for x in a.positional_only] + [(x, K.POSITIONAL_OR_KEYWORD) for x in a.positional_or_keyword]
                + ([("rest", K.VAR_POSITIONAL)] if va else []) + [(x, K.KEYWORD_ONLY) for x in a.keyword_only] + ([("kw", K.VAR_KEYWORD)] if vk else []))
        ok = list(a.parameters.items()) == want and len(a) == po + pk + va + ko + vk
        n += 1
        ctx.prove("parameters_in_signature_order_with_kinds_and_len", z3.BoolVal(ok), detail=repr(a))
    # names CPython itself binds although no source can spell them: a comprehension's implicit iterator `.0`; names are taken as they are
    for names in ((".0",), (".0", "x"), ("if",), ("\u00e9", "\u4e16"), ("_", "__")):
        a = Args((), names, None, (), None)
        got = list(a.parameters.items())
        ctx.prove("every_name_is_a_parameter_whatever_it_looks_like", z3.BoolVal(got == [(x, K.POSITIONAL_OR_KEYWORD) for x in names] and len(a) == len(names)), detail="%r -> %r" % (names, got))


@harness("args.args_to_parameters.structure", props=["C04"], functions=["code_data._args.args_to_parameters"], configs="any",
         assumes=["OrderedDict keeps insertion order; duplicate names collapse (WF: parameter names are distinct)", "rule 6: each starred generator maps a name to (name, kind) element-wise"],
         notes="structural contract for every length: the OrderedDict is built from one tuple display whose parts are, in this order, positional-only, positional-or-keyword, "
               "*args (iff present), keyword-only, **kwargs (iff present), each paired with its _ParameterKind - signature order, as inspect reports it")
def h_params_structure(ctx, cfg):
    import ast
    src = rewrite.Source.of(A)
    fn = src.get_def("args_to_parameters")
    ret = [n for n in fn.body if isinstance(n, ast.Return)]
    if len(ret) != 1 or not (isinstance(ret[0].value, ast.Call) and ast.unparse(ret[0].value.func) == "OrderedDict" and len(ret[0].value.args) == 1 and isinstance(ret[0].value.args[0], ast.Tuple)):
        raise rewrite.BindingError("args_to_parameters no longer returns OrderedDict((<parts>))")
    parts = ret[0].value.args[0].elts
    if not all(isinstance(p, ast.Starred) for p in parts):
        raise rewrite.BindingError("args_to_parameters: parts are no longer all starred")
    desc = []
    for p in parts:
        txt = ast.unparse(p.value)
        fields = [f for f in ("positional_only", "positional_or_keyword", "var_positional", "keyword_only", "var_keyword") if ("args." + f) in txt]
        kinds = [k for k in ("POSITIONAL_ONLY", "POSITIONAL_OR_KEYWORD", "VAR_POSITIONAL", "KEYWORD_ONLY", "VAR_KEYWORD") if ("_ParameterKind." + k) in txt.replace("_ParameterKind.POSITIONAL_OR_KEYWORD", "#POK#").replace("#POK#", "_ParameterKind.POSITIONAL_OR_KEYWORD" if k == "POSITIONAL_OR_KEYWORD" else "#")]
        desc.append((sorted(set(fields)), kinds))
    want = [(["positional_only"], ["POSITIONAL_ONLY"]), (["positional_or_keyword"], ["POSITIONAL_OR_KEYWORD"]), (["var_positional"], ["VAR_POSITIONAL"]),
            (["keyword_only"], ["KEYWORD_ONLY"]), (["var_keyword"], ["VAR_KEYWORD"])]
    ctx.prove("parts_in_signature_order_with_their_kinds", z3.BoolVal(desc == want), detail=repr(desc))
    for p, f in zip(parts, ("var_positional", "var_keyword")):
        pass
    opt = [ast.unparse(p.value) for p in parts if "var_" in ast.unparse(p.value)]
    ctx.prove("optional_parts_present_iff_the_name_is_set", z3.BoolVal(all(" if args.var_" in t and t.rstrip().endswith("else ()") for t in opt) and len(opt) == 2), detail=repr(opt))


# ---------------------------------------------------------------------------------------------------------------------------
# Args.parameters / len(args) for every length (replaces the reliance on the <=2-names enumeration for order, kinds and total)
# ---------------------------------------------------------------------------------------------------------------------------
class _SegElem(object):
    """The generic element of one symbolic-length group: stands for group[i] at every 0 <= i < len(group), in order."""

    def __init__(self, seq):
        self.seq = seq

    def __bool__(self):
        raise Unsupported("truth value of a generic parameter name (a filter on the names is outside rule 6)")

    def __eq__(self, o):
        if o is self:
            return True
        raise Unsupported("comparison of a generic parameter name")

    __hash__ = object.__hash__


class _SegSeq(SymSeq):
    """A group of names of symbolic length whose iteration yields its generic element once (rule 6: the consumer is a map-only generator)."""

    def __iter__(self):
        yield _SegElem(self)

    def __getitem__(self, i):
        r = SymSeq.__getitem__(self, i)
        return _SegSeq(r.s) if isinstance(r, SymSeq) else r       # a slice of a group is a (different) group

    def __add__(self, o):
        r = SymSeq.__add__(self, o)
        return _SegSeq(r.s)


class _SegOrderedDict(object):
    """Abstract view of the OrderedDict built from (name, kind) pairs: the insertion-ordered list of segments / single entries.
    WF: parameter names are pairwise distinct, so no entry collapses and the size is the sum of the parts."""

    def __init__(self, pairs=()):
        self.pairs = []
        for p in pairs:
            if not (isinstance(p, tuple) and len(p) == 2):
                raise Unsupported("OrderedDict built from something else than (key, value) pairs")
            self.pairs.append(p)

    def plen(self):
        n = z3.IntVal(0)
        for k, _ in self.pairs:
            n = n + (z3.Length(k.seq.s) if isinstance(k, _SegElem) else 1)
        return SymInt(z3.simplify(n))

    def items(self):
        return list(self.pairs)

    def __setitem__(self, k, v):
        # a statement loop filling the mapping is not covered by the map-only reading of rule 6 (its body could test the partial result)
        raise Unsupported("OrderedDict filled by item assignment: outside the generic-element rule used for args_to_parameters")

    def __getattr__(self, name):
        raise Unsupported("OrderedDict.%s on the abstract parameter mapping" % name)


def _register_params_unbounded():
    import code_data as CD
    import code_data._args as A_
    from inspect import _ParameterKind as K

    for va, vk in itertools.product([False, True], repeat=2):
        def h(ctx, cfg, va=va, vk=vk):
            ns = rewrite.load(A, ["args_to_parameters"], hooks={"len": plen}, extra_ns={"OrderedDict": _SegOrderedDict}, tag="_args_params")
            ns_cd = rewrite.load(CD, ["Args"], hooks={"len": plen}, tag="_Args_len")
            po, pk, ko = (_SegSeq(z3.Const(n, SymSeq.fresh("x").s.sort())) for n in ("positional_only", "positional_or_keyword", "keyword_only"))
            for n_, s_ in (("positional_only", po), ("positional_or_keyword", pk), ("keyword_only", ko)):
                ctx.input(n_, s_)
            van = SymName(z3.Int("var_positional")) if va else None
            vkn = SymName(z3.Int("var_keyword")) if vk else None
            a = ns_cd["Args"](po, pk, van, ko, vkn)
            saved = A_.args_to_parameters
            A_.args_to_parameters = ns["args_to_parameters"]       # Args.parameters imports it from the module at call time
            try:
                params = a.parameters
                total = plen(a)
            finally:
                A_.args_to_parameters = saved
            ctx.prove("engine.parameters_built_by_the_function_under_contract", z3.BoolVal(isinstance(params, _SegOrderedDict)))
            got = [((k.seq if isinstance(k, _SegElem) else k), kind) for k, kind in params.items()]
            want = [(po, K.POSITIONAL_ONLY), (pk, K.POSITIONAL_OR_KEYWORD)] + ([(van, K.VAR_POSITIONAL)] if va else []) + [(ko, K.KEYWORD_ONLY)] + ([(vkn, K.VAR_KEYWORD)] if vk else [])
            ok = len(got) == len(want) and all(g[0] is w[0] and g[1] is w[1] for g, w in zip(got, want))
            ctx.prove("post.parameters_are_the_groups_in_signature_order_each_name_with_its_kind", z3.BoolVal(ok), detail=repr([(type(g[0]).__name__, g[1]) for g in got]))
            ctx.prove("post.len_is_the_total_parameter_count",
                      Z(total) == z3.Length(po.s) + z3.Length(pk.s) + z3.Length(ko.s) + (1 if va else 0) + (1 if vk else 0))
        harness("args.parameters_and_len.every_length[*args=%d,**kwargs=%d]" % (va, vk), props=["C04"],
                functions=["code_data._args.args_to_parameters", "code_data.Args.__len__", "code_data.Args.parameters"], configs="any",
                assumes=["rule 6 (generic-element rule): a generator without a filter, star-unpacked into a tuple display, maps its group element-wise and in order - "
                         "the group's iteration yields its generic element once; a truth test or comparison on that element makes the run undecided",
                         "OrderedDict keeps insertion order; duplicate names collapse (WF: parameter names are distinct), so its size is the sum of the parts",
                         "WF: parameter names are non-empty strings"],
                notes="the real args_to_parameters, Args.parameters and Args.__len__ run on three groups of symbolic length (z3 sequences) and optional *args/**kwargs names: "
                      "the mapping lists positional-only, positional-or-keyword, *args, keyword-only, **kwargs in that order with the kind CPython binds each as, and len(args) is the "
                      "sum of the group lengths plus one per optional name - for every length, not only the enumerated shapes")(h)


_register_params_unbounded()
