"""More contracts for code_data/_blocks.py: the block-building loop (C13), jump operands in the encoder (C03/C01), `from_arg`
docstring-slot logic, `additional_args`, `to_tuple`, `verify_block`, and CodeData iteration (C14)."""
from __future__ import annotations

import ast
import copy
import itertools

import z3

import code_data
import code_data._blocks as B
from code_data import Args, Cellvar, CodeData, Constant, Freevar, Function, Instruction, Jump, Name, NoArg, Varname

from pcv import rewrite
from pcv.core import Ctx, PathAbort, SymArrSeq, SymBool, SymInt, SymMap, Unsupported, plen, sem, zint
from pcv.registry import harness
from .c_blocks import real, tables_ns
from .util import Z, cached, in_range

# --------------------------------------------------------------------------------------------------
# C13: the block-building loop of bytes_to_blocks over a symbolic-length instruction sequence

_INV = "pv.inv(pv_i, blocks, (block if pv.bound('block', locals()) else None))"
_FRAG_SRC = """
def block_loop_fragment(offsets_and_instruction, targets, blocks, pv):
    pv_i = 0
    pv.assert_inv('block_loop.inv_on_entry', {INV})
    pv_i = pv.havoc_index()
    blocks.havoc()
    if pv.havoc_bound('block'):
        block = pv.havoc_block()
    pv.assume_inv({INV})
    if pv.in_range(pv_i):
        (offset, instruction) = offsets_and_instruction.get(pv_i)
        PV_BODY
        pv_i = pv_i + 1
        pv.assert_inv('block_loop.inv_preserved', {INV})
        pv.cut()
    pv.at_exit(pv_i)
    return blocks, (block if pv.bound('block', locals()) else None)
""".replace("{INV}", _INV)


def block_fragment():
    def build():
        src = rewrite.Source.of(B)
        fn = src.get_def("bytes_to_blocks")
        loop = rewrite.find_stmt(fn, lambda n, t: isinstance(n, ast.For) and ast.unparse(n.iter) == "offsets_and_instruction", "for offset, instruction in offsets_and_instruction")
        if ast.unparse(loop.target) != "(offset, instruction)":
            raise rewrite.BindingError("block loop target changed: %s" % ast.unparse(loop.target))
        frag = ast.parse(_FRAG_SRC)
        fdef = frag.body[0]
        iff = next(n for n in fdef.body if isinstance(n, ast.If) and "in_range" in ast.unparse(n.test))
        k = next(i for i, st in enumerate(iff.body) if isinstance(st, ast.Expr) and ast.unparse(st) == "PV_BODY")
        body = [rewrite.BuiltinRouter({"len"}, B.__name__, "bytes_to_blocks").visit(copy.deepcopy(st)) for st in loop.body]
        iff.body[k:k + 1] = body
        rewrite.REWRITE_LOG.append(("fragment-extraction", B.__name__, "bytes_to_blocks", loop.lineno, "block-building loop, cut at its head (rule 2) over a symbolic-length sequence"))
        return frag
    return cached("block_loop", build)


def _block_harness(ctx, cfg, zero_is_target=True):
    frag = block_fragment()
    N = z3.Int("N")
    OFF = z3.Array("OFF", z3.IntSort(), z3.IntSort())
    ISJ = z3.Function("is_jump", z3.IntSort(), z3.BoolSort())
    TGT = z3.Function("jump_target", z3.IntSort(), z3.IntSort())
    T = z3.Function("is_target", z3.IntSort(), z3.BoolSort())
    RANK = z3.Function("rank", z3.IntSort(), z3.IntSort())
    NT = z3.Int("n_targets")
    CNT = z3.Function("cnt", z3.IntSort(), z3.IntSort())

    class Seq:
        def get(self, i):
            iz = zint(i)
            ctx.assume(CNT(iz + 1) == CNT(iz) + z3.If(T(z3.Select(OFF, iz)), 1, 0), "definition of cnt at the generic index")
            if ctx.decide(ISJ(iz)):
                ctx.assume(T(TGT(iz)), "pre: every decoded jump target was added to targets_set (first loop)")
                arg = Jump(SymInt(TGT(iz)), False)
            else:
                arg = NoArg()
            return SymInt(z3.Select(OFF, iz)), Instruction("OP", arg)

    class Targets:
        def __contains__(self, x):
            return bool(SymBool(T(zint(x))))

        def index(self, x):
            if not ctx.decide(T(zint(x))):
                raise sem(ValueError("%r is not in list" % (x,)))
            ctx.assume(z3.And(RANK(zint(x)) >= 0, RANK(zint(x)) < NT), "contract of sorted(list).index")
            return SymInt(RANK(zint(x)))

    class GhostBlock:
        def __init__(self, n):
            self.n = n

        def append(self, x):
            if isinstance(x.arg, Jump):
                ctx.prove("append.jump_target_designates_an_existing_block_index", z3.And(Z(x.arg.target) >= 0, Z(x.arg.target) < NT))
            self.n = self.n + 1

        def plen(self):
            return self.n

    class GhostBlocks:
        def __init__(self):
            self.nb, self.current = 0, None

        def append(self, b):
            if self.current is not None:
                ln = plen(self.current)
                ctx.prove("blocks.append.the_block_being_closed_is_non_empty", Z(ln) >= 1)
            self.nb = self.nb + 1
            self.current = b

        def havoc(self):
            self.nb = SymInt.fresh(ctx.fresh("nb"))
            self.current = "HAVOC"

    class PV:
        def bound(self, name, loc):
            return name in loc

        def havoc_index(self):
            return SymInt.fresh(ctx.fresh("i"))

        def havoc_bound(self, name):
            return ctx.decide(z3.Bool(ctx.fresh("bound_" + name)))

        def havoc_block(self):
            return GhostBlock(SymInt.fresh(ctx.fresh("blen")))

        def in_range(self, i):
            return bool(SymBool(z3.And(zint(i) >= 0, zint(i) < N)))

        def inv(self, i, blocks, block):
            iz, nb = zint(i), zint(blocks.nb)
            if blocks.current == "HAVOC":
                blocks.current = block
            c = [iz >= 0, iz <= N, nb == CNT(iz), nb >= 0, z3.Implies(iz >= 1, nb >= 1)]
            if block is None:
                c.append(iz == 0)
            else:
                c += [iz >= 1, Z(plen(block)) >= 1, z3.BoolVal(blocks.current is block)]
            return z3.And(*c)

        def assert_inv(self, label, c):
            ctx.prove(label, c)

        def assume_inv(self, c):
            ctx.assume(c, "loop invariant")

        def cut(self):
            raise PathAbort()

        def at_exit(self, i):
            ctx.assume(zint(i) == N, "loop exit")

    ns = rewrite.compile_defs(B, [copy.deepcopy(frag.body[0])], {"pvhook_len": plen}, "bytes_to_blocks:block-loop")
    pre = [N >= 1, z3.Select(OFF, 0) == 0, CNT(0) == 0, NT >= 1]
    if zero_is_target:
        pre.append(T(0))
    ctx.assume(z3.And(*pre), "pre: WF at least one instruction, first offset 0, targets_set contains 0")
    ctx.input("N", SymInt(N))
    blocks, block = ns["block_loop_fragment"](Seq(), Targets(), GhostBlocks(), PV())
    ctx.prove("post.number_of_blocks_equals_number_of_instructions_at_target_offsets", zint(blocks.nb) == CNT(N))
    ctx.prove("post.at_least_one_block", zint(blocks.nb) >= 1)
    ctx.prove("post.last_block_non_empty", Z(plen(block)) >= 1)


@harness("blocks.block_loop.partition", props=["C13"], functions=["code_data._blocks.bytes_to_blocks"], configs="any",
         assumes=["WF(c): every jump target is the first offset of an instruction (then cnt(N) == |targets| and every Jump.target < len(blocks)); validated on corpora by E3",
                  "contract of sorted(...).index on a member: 0 <= rank < len"],
         notes="fragment of bytes_to_blocks, cut at the loop head, over a symbolic-length instruction sequence: a block is opened exactly at the instructions whose "
               "offset is a target, no block is empty, no UnboundLocalError/ValueError path is feasible")
def h_block_loop(ctx, cfg):
    _block_harness(ctx, cfg, True)


@harness("blocks.block_loop.canary", props=["C13"], functions=["code_data._blocks.bytes_to_blocks"], configs="any", expect="failed",
         notes="known-false precondition: without `0 in targets_set` the real code's UnboundLocalError path is feasible and must be reported")
def h_block_loop_canary(ctx, cfg):
    _block_harness(ctx, cfg, False)


@harness("blocks.targets_set.seeded_and_extended", props=["C13"], functions=["code_data._blocks.bytes_to_blocks"], configs="any", soft=True,
         notes="(soft: a sufficient syntactic condition; the semantic counterpart is blocks.bytes_to_blocks.jump_graph) syntactic obligations on the first loop: targets_set is initialised to a set display containing exactly 0; the only other writes are "
               "`targets_set.add(<the decoded jump's target>)` under `isinstance(processed_arg, Jump)`; `targets = sorted(targets_set)`")
def h_targets(ctx, cfg):
    src = rewrite.Source.of(B)
    fn = src.get_def("bytes_to_blocks")
    inits = [n for n in ast.walk(fn) if isinstance(n, ast.Assign) and ast.unparse(n.targets[0]) == "targets_set"]
    ctx.prove("targets_set.initialised_once_to_{0}", z3.BoolVal(len(inits) == 1 and ast.unparse(inits[0].value) == "{0}"), detail=repr([ast.unparse(i) for i in inits]))
    writes = [n for n in ast.walk(fn) if isinstance(n, ast.Call) and isinstance(n.func, ast.Attribute) and ast.unparse(n.func.value) == "targets_set"]
    ctx.prove("targets_set.only_adds_jump_targets", z3.BoolVal(len(writes) == 1 and writes[0].func.attr == "add" and ast.unparse(writes[0].args[0]) == "processed_arg.target"),
              detail=repr([ast.unparse(w) for w in writes]))
    guard = [n for n in ast.walk(fn) if isinstance(n, ast.If) and ast.unparse(n.test) == "isinstance(processed_arg, Jump)" and any(w in list(ast.walk(n)) for w in writes)]
    ctx.prove("targets_set.add_is_under_the_jump_test_with_no_else_path_skipping_it", z3.BoolVal(len(guard) == 1 and writes[0] in [c for st in guard[0].body for c in ast.walk(st)]))
    srt = [n for n in ast.walk(fn) if isinstance(n, ast.Assign) and ast.unparse(n.targets[0]) == "targets"]
    ctx.prove("targets.is_sorted(targets_set)", z3.BoolVal(len(srt) == 1 and ast.unparse(srt[0].value) == "sorted(targets_set)"))
    idx = [n for n in ast.walk(fn) if isinstance(n, ast.Call) and ast.unparse(n.func) == "targets.index"]
    ctx.prove("jump_targets_rewritten_with_targets.index(old target)", z3.BoolVal(len(idx) == 1 and ast.unparse(idx[0].args[0]) == "instruction.arg.target"))


@harness("blocks.verify_block.contract", props=["C13"], functions=["code_data._blocks.verify_block"], configs="any", engine="E2",
         notes="bounded: <= 2 blocks x <= 2 instructions with symbolic jump targets: verify_block raises iff a block is empty or a jump target is outside range(len(blocks))")
def h_verify(ctx, cfg):
    f = real("verify_block")
    t = ctx.input("target", SymInt.fresh("t"))
    for shape in [((),), (("J",),), (("N",), ("J",)), (("N", "J"), ("N",)), (("N",), ())]:
        blocks = tuple(tuple(Instruction("X", Jump(t, False)) if k == "J" else Instruction("X") for k in b) for b in shape)
        try:
            f(blocks)
            ok = True
        except AssertionError:
            ok = False
        has_empty = any(len(b) == 0 for b in shape)
        has_jump = any("J" in b for b in shape) and not has_empty or (any("J" in b for b in shape[:[len(b) for b in shape].index(0)]) if has_empty else False)
        if ok:
            ctx.prove("accepts_only_well_formed[%r]" % (shape,), z3.And(z3.BoolVal(not has_empty), z3.Or(z3.BoolVal(not any("J" in b for b in shape)), z3.And(t.z >= 0, t.z < len(shape)))))
        else:
            ctx.prove("rejects_only_ill_formed[%r]" % (shape,), z3.Or(z3.BoolVal(has_empty), z3.Not(z3.And(t.z >= 0, t.z < len(shape)))))


# --------------------------------------------------------------------------------------------------
# C03 / C01: jump operands computed by the fix-point loop decode back to the target block's first offset

def jump_fragment():
    def build():
        src = rewrite.Source.of(B)
        fn = src.get_def("blocks_to_bytes")
        iff = rewrite.find_stmt(fn, lambda n, t: isinstance(n, ast.If) and ast.unparse(n.test) == "isinstance(arg, Jump)", "if isinstance(arg, Jump): [jump operand update]")
        frag = rewrite.make_function("jump_fragment", ["arg", "instruction", "block_index_to_instruction_offset", "current_instruction_offset", "n_instructions", "args", "block_index",
                                                        "instruction_index", "changed_instruction_lengths"],
                                     [iff, ast.parse("return changed_instruction_lengths").body[0]], B.__name__, "blocks_to_bytes",
                                     "jump operand update `if isinstance(arg, Jump): ...`; free variables become parameters")
        return frag
    return cached("jump_fragment", build)


def _register_jump():
    for relative in (False, True):
        def h(ctx, cfg, relative=relative):
            frag = jump_fragment()
            ns = rewrite.compile_defs(B, [copy.deepcopy(frag)], {}, "blocks_to_bytes:jump-update")
            to_arg = B.to_arg
            T = cfg.tables
            tgt_off = ctx.input("target_block_first_unit", SymInt.fresh("target_unit"))      # in code units
            cur = ctx.input("units_up_to_and_including_this_instruction", SymInt.fresh("cur_units"))
            n = ctx.input("units_of_this_instruction", SymInt.fresh("n_units"))
            ctx.assume(z3.And(tgt_off.z >= 0, n.z >= 1, n.z <= 4, cur.z >= n.z), "pre: layout state")
            if relative:
                ctx.assume(tgt_off.z >= cur.z, "pre: relative jumps are forward")
            offs = {7: tgt_off}
            args = {}
            ns["jump_fragment"](Jump(7, relative), Instruction("JUMP", Jump(7, relative)), offs, cur, n, args, 0, 0, False)
            new_arg = args[0, 0]
            opcode = (T["hasjrel"] if relative else T["hasjabs"])[0]
            # CPython reads the operand at the byte offsets the encoder will emit: next_offset = 2 * cur units
            r = to_arg(opcode, new_arg, 2 * cur, None, None, None, None, None)
            ctx.prove("post.decoded_jump_kind", z3.BoolVal(isinstance(r, Jump) and r.relative is relative))
            ctx.prove("post.cpython_lands_on_the_first_unit_of_the_target_block", Z(r.target) == 2 * tgt_off.z)
            ctx.prove("post.operand_non_negative", Z(new_arg) >= 0)
        harness("blocks.jump_update.decodes_to_target[%s]" % ("relative" if relative else "absolute"), props=["C03", "C01", "C05", "C06"],
                functions=["code_data._blocks.blocks_to_bytes", "code_data._blocks.to_arg"], configs="all",
                notes="fragment of the fix-point loop: with the offsets of the current layout, the operand written for a jump makes CPython (to_arg's proved reading) land on the first "
                      "code unit of the target block, for both kinds and both scalings")(h)

    def h_flag(ctx, cfg):
        frag = jump_fragment()
        ns = rewrite.compile_defs(B, [copy.deepcopy(frag)], {}, "blocks_to_bytes:jump-update")
        size = B._instrsize
        tgt_off, cur, n = SymInt.fresh("t"), SymInt.fresh("c"), SymInt.fresh("n")
        ctx.assume(z3.And(tgt_off.z >= 0, tgt_off.z < 2 ** 30, n.z >= 1, n.z <= 4, cur.z >= n.z), "pre")
        prior = ctx.decide(z3.Bool("changed_before"))
        has_override = ctx.decide(z3.Bool("has_n_args_override"))
        ins = Instruction("JUMP", Jump(7, False), _n_args_override=(n if has_override else None))
        args = {}
        out = ns["jump_fragment"](Jump(7, False), ins, {7: tgt_off}, cur, n, args, 0, 0, prior)
        need = size(args[0, 0])
        if has_override:
            ctx.prove("flag.override_never_requests_another_pass", z3.BoolVal(out is prior or out == prior))
        else:
            differs = z3.BoolVal(True) if not isinstance(n, SymInt) else (n.z != need)
            ctx.prove("flag.set_when_this_jump_changed_size_and_never_cleared", z3.BoolVal(bool(out)) == z3.Or(z3.BoolVal(prior), differs) if isinstance(out, bool) else z3.BoolVal(False))
    harness("blocks.jump_update.change_flag_is_sticky", props=["C03", "C05", "C06"], functions=["code_data._blocks.blocks_to_bytes"], configs="any",
            notes="the relaxation flag is set iff this jump's size differs from the layout's and is never cleared by a later jump (otherwise the loop stops before offsets converge)")(h_flag)


_register_jump()


# --------------------------------------------------------------------------------------------------
# from_arg: docstring slot (C03/C05) as a complete finite case analysis, on the real function with real FromArgs

def _register_from_arg():
    cases = itertools.product(["module", "fn-doc", "fn-nodoc"], [True, False], ["str", "int", "None"], [None, 0, 1])
    for kind, first, ctype, override in cases:
        def h(ctx, cfg, kind=kind, first=first, ctype=ctype, override=override):
            from_arg, FromArgs = B.from_arg, B.FromArgs
            rewrite.Source.of(B).get_def("from_arg")
            from code_data._constants import constant_key
            tp = None if kind == "module" else Function(Args(), "the doc" if kind == "fn-doc" else None)
            constants = FromArgs(_hash_fn=constant_key)
            if kind == "fn-doc":
                constants[0] = "the doc"
            if not first:
                constants.add(12345, None)
            before = dict(constants._i_to_arg)
            value = {"str": "a string", "int": 7, "None": None}[ctype]
            try:
                got = from_arg(Constant(value, override), tp, (), FromArgs(), FromArgs(), FromArgs(), constants)
            except AssertionError:
                ctx.prove("raise.only_when_the_override_collides", z3.BoolVal(override is not None and override in before and constant_key(before[override]) != constant_key(value)))
                return
            after = constants._i_to_arg
            ctx.prove("post.operand_resolves_to_the_given_constant", z3.BoolVal(got in after and constant_key(after[got]) == constant_key(value)))
            if override is not None:
                ctx.prove("post.override_is_the_operand", z3.BoolVal(got == override))
            is_fn_nodoc = kind == "fn-nodoc"
            if is_fn_nodoc and not before and ctype == "str" and override is None:
                ctx.prove("post.None_pinned_at_slot_0_so_the_string_is_not_a_docstring(C05)", z3.BoolVal(after.get(0, "missing") is None and got == 1))
            elif override is None:
                ctx.prove("post.first_use_order", z3.BoolVal(got == (len(before) if constant_key(value) not in [constant_key(v) for v in before.values()] else [k for k, v in before.items() if constant_key(v) == constant_key(value)][0])))
            if kind == "fn-doc":
                ctx.prove("post.docstring_stays_at_slot_0", z3.BoolVal(after[0] == "the doc" or override == 0))
            # frame: the table changes by the entry of this constant only (and by the pinned None in the one docstring case)
            expected = dict(before)
            if is_fn_nodoc and not before and ctype == "str" and override is None:
                expected[0] = None
            expected.setdefault(got, value)
            ctx.prove("frame.no_other_table_entry_is_written(C01: an override names the slot, nothing is pinned beside it)",
                      z3.BoolVal(set(after) == set(expected) and all(constant_key(after[k]) == constant_key(expected[k]) for k in expected)), detail="%r -> %r" % (before, dict(after)))
        harness("blocks.from_arg.constant_slot[%s,first=%d,%s,override=%s]" % (kind, first, ctype, override), props=["C03", "C05", "C01"],
                functions=["code_data._blocks.from_arg", "code_data._blocks.FromArgs.add"], configs="any",
                notes="complete finite case analysis (code kind x first constant? x constant type x override): the operand resolves to the given constant; a function without "
                      "docstring whose first constant is a string gets None pinned at slot 0")(h)


_register_from_arg()


# --------------------------------------------------------------------------------------------------
# ToArgs.additional_args and FromArgs.to_tuple: bounded (concrete lengths, symbolic contents)

@harness("blocks.ToArgs.additional_args[len<=4]", props=["C09", "C01"], functions=["code_data._blocks.ToArgs.additional_args"], configs="any", engine="E2",
         notes="bounded: tables of length <= 4, every subset of found indices: yields exactly the never-found indices, ascending, each with an override iff its position "
               "differs from its rank (the number of entries found before it)")
def h_additional(ctx, cfg):
    ToArgs = B.ToArgs
    rewrite.Source.of(B).get_def("ToArgs.additional_args")
    for n in range(5):
        table = tuple("v%d" % i for i in range(n))
        for found in itertools.chain.from_iterable(itertools.combinations(range(n), k) for k in range(n + 1)):
            for perm in ([found] if len(found) < 2 else [found, tuple(reversed(found))]):
                order = {idx: r for r, idx in enumerate(perm)}
                t = ToArgs(table, dict(order))
                for idx in perm:
                    t._arg_to_first_index.setdefault(table[idx], idx) if hasattr(t, "_arg_to_first_index") else None
                got = list(t.additional_args())
                missing = [i for i in range(n) if i not in order]
                want = []
                rank = len(order)
                for i in missing:
                    want.append((table[i], i if rank != i else None))
                    rank += 1
                ctx.prove("additional_args.exactly_the_unreferenced_entries_in_order", z3.BoolVal(got == want), detail="table %d found %r: %r vs %r" % (n, perm, got, want))


def additional_step():
    def build():
        src = rewrite.Source.of(B)
        fn = src.get_def("ToArgs.additional_args")
        loop = rewrite.find_stmt(fn, lambda n, t: isinstance(n, ast.For), "for i in range(len(self._args))")
        if ast.unparse(loop.iter) != "range(len(self._args))" or ast.unparse(loop.target) != "i":
            raise rewrite.BindingError("additional_args loop changed: for %s in %s" % (ast.unparse(loop.target), ast.unparse(loop.iter)))
        frag = rewrite.make_function("additional_args_step", ["self", "i"], list(loop.body), B.__name__, "ToArgs.additional_args", "body of `for i in range(len(self._args))` on a generic index")
        return frag
    return cached("additional_step", build)


@harness("blocks.ToArgs.additional_args.inductive_step", props=["C09", "C01"], functions=["code_data._blocks.ToArgs.additional_args", "code_data._blocks.ToArgs.found_index"], configs="any",
         assumes=["`for i in range(n)` visits 0..n-1 in ascending order (Python semantics); induction over i is the meta-step"],
         notes="loop body on a generic index i under the invariant 'every index >= i is found now iff it was found before the call': yields exactly when i was never found, the yielded "
               "value is table[i] with an override iff i differs from its rank, and the invariant holds for i+1 - so the generator yields exactly the never-found indices, ascending")
def h_additional_step(ctx, cfg):
    from .c_blocks import KEYF, keyfn
    frag = additional_step()
    ns = tables_ns()
    step = rewrite.compile_defs(B, [copy.deepcopy(frag)], {"pvhook_len": plen}, "ToArgs.additional_args:step")["additional_args_step"]
    table = SymArrSeq.fresh("table")
    M0, M, F = SymMap.fresh("M0"), SymMap.fresh("M"), SymMap.fresh("F")
    i = ctx.input("i", SymInt.fresh("i"))
    j = z3.Int("inv_j")
    ctx.assume(z3.And(M.size >= 0, table.length >= 0, i.z >= 0, i.z < table.length), "pre")
    ctx.assume(z3.ForAll([j], z3.Implies(j >= i.z, z3.Select(M.dom, j) == z3.Select(M0.dom, j))), "loop invariant: indices >= i are found now iff they were found before the call")
    size_before = M.size
    t = ns["ToArgs"](table, M, keyfn, F)
    ys = list(step(t, i))
    if ys:
        ctx.prove("step.yields_once", z3.BoolVal(len(ys) == 1))
        ctx.prove("step.yields_only_never_found_indices", z3.Not(z3.Select(M0.dom, i.z)))
        value, override = ys[0]
        ctx.prove("step.yielded_value_is_table[i]", Z(value) == z3.Select(table.arr, i.z))
        if override is not None:
            ctx.prove("step.override_is_the_index", Z(override) == i.z)
        ctx.prove("step.rank_is_the_number_of_entries_found_before", z3.Select(M.val, i.z) == size_before)
    else:
        ctx.prove("step.skips_only_found_indices", z3.Select(M0.dom, i.z))
    ctx.prove("step.invariant_preserved_for_i+1", z3.ForAll([j], z3.Implies(j >= i.z + 1, z3.Select(M.dom, j) == z3.Select(M0.dom, j))))


@harness("blocks.FromArgs.to_tuple[len<=3]", props=["C03"], functions=["code_data._blocks.FromArgs.to_tuple", "code_data._blocks.FromArgs.__setitem__"], configs="any", engine="E2",
         notes="bounded: up to 3 entries written at symbolic slots: to_tuple either raises, or the slots are exactly 0..n-1 and table[k] is the value written at k "
               "(so an operand already emitted never indexes outside the table)")
def h_to_tuple(ctx, cfg):
    ns = tables_ns()
    FromArgs = ns["FromArgs"]

    class SlotMap:
        """dict[int, value] with symbolic integer keys (concrete number of entries): what to_tuple iterates over"""

        def __init__(self):
            self.entries = []

        def __contains__(self, k):
            for kk, _ in self.entries:
                if bool(SymBool(zint(kk) == zint(k))):
                    return True
            return False

        def __getitem__(self, k):
            for kk, v in self.entries:
                if bool(SymBool(zint(kk) == zint(k))):
                    return v
            raise sem(KeyError(k))

        def __setitem__(self, k, v):
            for i, (kk, _) in enumerate(self.entries):
                if bool(SymBool(zint(kk) == zint(k))):
                    self.entries[i] = (kk, v)
                    return
            self.entries.append((k, v))

        def items(self):
            return list(self.entries)

        def __iter__(self):
            return iter([k for k, _ in self.entries])

        def plen(self):
            return len(self.entries)

        def __len__(self):
            return len(self.entries)

    def h_sorted(x):
        xs = list(x)
        if not any(isinstance(e, SymInt) or (isinstance(e, tuple) and isinstance(e[0], SymInt)) for e in xs):
            return sorted(xs)
        out = []
        for e in xs:          # insertion sort through symbolic comparisons (forks)
            k = e[0] if isinstance(e, tuple) else e
            pos = 0
            while pos < len(out) and bool(SymBool(zint(out[pos][0] if isinstance(out[pos], tuple) else out[pos]) < zint(k))):
                pos += 1
            out.insert(pos, e)
        return out

    def h_list(x):
        return list(x)

    def h_range(*a):
        return range(*a)
    ns2 = rewrite.load(B, ["FromArgs"], hooks={"len": plen, "sorted": h_sorted, "list": h_list, "range": h_range}, tag="FromArgs.to_tuple")
    FA = ns2["FromArgs"]
    for n in (0, 1, 2, 3):
        slots = [ctx.input("slot%d" % i, SymInt.fresh("slot%d_%d" % (n, i))) for i in range(n)]
        for a, b in itertools.combinations(slots, 2):
            ctx.assume(a.z != b.z, "pre: distinct slots")
        m = SlotMap()
        for i, s in enumerate(slots):
            m.entries.append((s, "value%d" % i))
        f = FA(_i_to_arg=m, _arg_to_i={}, _hash_fn=lambda x: x)
        dense = z3.And(*[z3.Or(*[s.z == k for s in slots]) for k in range(n)]) if n else z3.BoolVal(True)
        try:
            t = f.to_tuple()
        except ValueError:
            ctx.prove("to_tuple.raises_only_when_the_slots_leave_a_gap[n=%d]" % n, z3.Not(dense))
            continue
        ctx.prove("to_tuple.returns_only_for_slots_0..n-1[n=%d]" % n, dense)
        ctx.prove("to_tuple.length[n=%d]" % n, z3.BoolVal(len(t) == n))
        for i, s in enumerate(slots):
            for k in range(n):
                if t[k] == "value%d" % i:
                    ctx.prove("to_tuple.table[k]_is_the_value_written_at_k[n=%d]" % n, s.z == k)


# --------------------------------------------------------------------------------------------------
# C14: CodeData.__iter__ / all_code_data

@harness("iter.nested_code_enumeration[bounded shapes]", props=["C14"], functions=["code_data.CodeData.__iter__", "code_data.CodeData.all_code_data"], configs="all", engine="E2",
         notes="bounded: every arrangement of {no arg, name, int constant, nested code} over <= 2 blocks x <= 2 instructions and <= 2 additional args, nesting depth <= 3: "
               "iteration yields exactly the nested CodeData among operands and additional args, all_code_data yields self first and then every descendant")
def h_iter(ctx, cfg):
    src = rewrite.Source.of(code_data)
    src.get_def("CodeData.__iter__")
    src.get_def("CodeData.all_code_data")
    counter = [0]

    def leaf():
        counter[0] += 1
        return CodeData(blocks=((Instruction("RETURN_VALUE", line_number=1),),), filename="f", first_line_number=counter[0], name="leaf%d" % counter[0], stacksize=1)

    def mk(kinds, addl, depth):
        nested = []

        def arg(k):
            if k == "C":
                c = leaf() if depth <= 1 else mk(("C", "N"), ("C",), depth - 1)[0]
                nested.append(c)
                return Constant(c)
            return {"N": NoArg(), "n": Name("x"), "i": Constant(1)}[k]
        blocks = tuple(tuple(Instruction("OP", arg(k), line_number=1) for k in b) for b in kinds)
        extra = tuple((Constant(nested.append(c) or c, 9) if k == "C" else Name("y", 3)) for k in addl for c in [(leaf() if depth <= 1 else mk(("C", "N"), ("C",), depth - 1)[0]) if k == "C" else None])
        counter[0] += 1
        return CodeData(blocks=blocks, filename="f", first_line_number=counter[0], name="node%d" % counter[0], stacksize=1, _additional_args=extra), nested

    def descendants(cd):
        out = [cd]
        for b in cd.blocks:
            for ins in b:
                if isinstance(ins.arg, Constant) and isinstance(ins.arg.constant, CodeData):
                    out += descendants(ins.arg.constant)
        for a in cd._additional_args:
            if isinstance(a, Constant) and isinstance(a.constant, CodeData):
                out += descendants(a.constant)
        return out
    # the same two nested code objects loaded alternately by four instructions (a duplicated finally body with two lambdas): each is yielded once
    la, lb = leaf(), leaf()
    rep = CodeData(blocks=((Instruction("L", Constant(la), line_number=1), Instruction("L", Constant(lb), line_number=1)), (Instruction("L", Constant(la), line_number=2), Instruction("L", Constant(lb), line_number=2))),
                   filename="f", first_line_number=1, name="rep", stacksize=1, _additional_args=(Constant(lb, 5),))
    got = list(rep)
    ctx.prove("iter.a_nested_code_object_loaded_by_several_instructions_is_yielded_once", z3.BoolVal(len(got) == 2 and got[0] is la and got[1] is lb), detail=repr([g.name for g in got]))
    # two different nested code objects whose hashes collide (they differ only in the constants -1 / -2, which CPython hashes alike): both are yielded
    def leaf_with(c):
        return CodeData(blocks=((Instruction("LOAD_CONST", Constant(c), line_number=1), Instruction("RETURN_VALUE", line_number=1)),), filename="f", first_line_number=7, name="<lambda>", stacksize=1)
    h1, h2 = leaf_with(-1), leaf_with(-2)
    col = CodeData(blocks=((Instruction("L", Constant(h1), line_number=1), Instruction("L", Constant(h2), line_number=1)),), filename="f", first_line_number=1, name="col", stacksize=1,
                   _additional_args=(Constant(leaf_with((-1, "x")), 4), Constant(leaf_with((-2, "x")), 5)))
    got = list(col)
    ctx.prove("iter.distinct_nested_code_objects_with_equal_hashes_are_all_yielded", z3.BoolVal(hash(h1) == hash(h2) and len(got) == 4 and got[0] is h1 and got[1] is h2), detail=repr([g.blocks[0][0].arg for g in got]))
    shapes = [tuple(tuple(b) for b in s) for s in [("C",), ("N",), ("CC",), ("nC", "i"), ("C", "C"), ("iN", "Cn"), ("CC", "CC")]]
    n = 0
    for shape in shapes:
        for addl in [(), ("C",), ("n", "C"), ("C", "C")]:
            for depth in (1, 2, 3):
                cd, nested = mk(shape, addl, depth)
                got = list(cd)
                ctx.prove("iter.yields_exactly_the_directly_nested_code_objects", z3.BoolVal(sorted(map(id, got)) == sorted(map(id, nested))), detail="%r %r depth %d" % (shape, addl, depth))
                allc = list(cd.all_code_data())
                want = descendants(cd)
                ctx.prove("all_code_data.self_first_then_every_descendant", z3.BoolVal(allc and allc[0] is cd and sorted(map(id, allc)) == sorted(map(id, want))),
                          detail="%r %r depth %d: %d vs %d" % (shape, addl, depth, len(allc), len(want)))
                n += 1


# --------------------------------------------------------------------------------------------------
# C14 by the generic-element rule and structural induction (unbounded)

def _iter_loops_accumulate_only():
    """side condition of rule 6 for CodeData.__iter__: every loop body only tests the element and yields from it"""
    src = rewrite.Source.of(code_data)
    fn = src.get_def("CodeData.__iter__")
    for node in ast.walk(fn):
        if isinstance(node, (ast.Assign, ast.AugAssign)) and not (isinstance(node, ast.Assign) and len(node.targets) == 1 and isinstance(node.targets[0], ast.Name)):
            return False
        if isinstance(node, (ast.Break, ast.Continue, ast.Return, ast.While, ast.Global, ast.Nonlocal)):
            return False
    return any(isinstance(n, ast.Yield) for n in ast.walk(fn))


def _register_iter_generic():
    kinds = ["NoArg", "Name", "Varname", "Cellvar", "Freevar", "Jump", "int", "Constant(scalar)", "Constant(tuple)", "Constant(CodeData)"]
    for where in ("instruction", "additional_arg"):
        for kind in kinds:
            if where == "additional_arg" and kind in ("NoArg", "Freevar", "Jump", "int"):
                continue

            def h(ctx, cfg, where=where, kind=kind):
                if not _iter_loops_accumulate_only():
                    raise rewrite.BindingError("CodeData.__iter__ is no longer a pure yield-only traversal (rule 6 side condition)")
                child = CodeData(blocks=((Instruction("RETURN_VALUE", line_number=1),),), filename="f", first_line_number=7, name="child", stacksize=1)
                arg = {"NoArg": NoArg(), "Name": Name("n", 1), "Varname": Varname("v"), "Cellvar": Cellvar("c"), "Freevar": Freevar("f"), "Jump": Jump(0), "int": 3,
                       "Constant(scalar)": Constant(1), "Constant(tuple)": Constant((1, "a")), "Constant(CodeData)": Constant(child, 2)}[kind]
                # a generic element in a generic position: other elements are of a kind that never yields (covered by their own case)
                filler = Instruction("NOP", NoArg(), line_number=1)
                if where == "instruction":
                    cd = CodeData(blocks=((filler,), (filler, Instruction("OP", arg, line_number=2), filler)), filename="f", first_line_number=1, name="parent", stacksize=1)
                else:
                    cd = CodeData(blocks=((filler,),), filename="f", first_line_number=1, name="parent", stacksize=1, _additional_args=(Name("x", 0), arg))
                got = list(cd)
                want = [child] if kind == "Constant(CodeData)" else []
                ctx.prove("iter.generic_element_yields_iff_it_is_a_nested_code_constant", z3.BoolVal(len(got) == len(want) and all(a is b for a, b in zip(got, want))), detail="%s %s -> %r" % (where, kind, got))
            harness("iter.generic_element[%s,%s]" % (where, kind), props=["C14"], functions=["code_data.CodeData.__iter__"], configs="all",
                    assumes=["rule 6 (generic-element rule): __iter__ is a yield-only traversal of blocks x instructions and of the additional args (checked syntactically)"],
                    notes="a generic element of every operand kind at a generic position: it is yielded iff it is a Constant holding a CodeData - so iteration yields exactly the nested code "
                          "objects among all operands and additional arguments, for any number of blocks and instructions")(h)

    def h_all(ctx, cfg):
        src = rewrite.Source.of(code_data)
        fn = src.get_def("CodeData.all_code_data")
        log = []

        class Child(CodeData):
            """a real (frozen) CodeData whose own recursion is the induction hypothesis"""

            def all_code_data(self):
                log.append(self.stacksize)
                yield ("subtree", self.stacksize)
                yield grand()       # every child has a grandchild that is an *equal* CodeData value (a distinct code object under another parent)
        ns = rewrite.compile_defs(code_data, [copy.deepcopy(fn)], {}, "CodeData.all_code_data")
        f = ns["all_code_data"]
        # three different children that share name, file and first line (two lambdas on one line do)
        grand = lambda: CodeData(blocks=((Instruction("RETURN_VALUE", line_number=1),),), filename="f", first_line_number=1, name="<lambda>", stacksize=9)
        kids = [Child(blocks=((Instruction("OP%d" % k, line_number=1),),), filename="f", first_line_number=1, name="<lambda>", stacksize=k) for k in (1, 2, 3)]

        class Parent:
            def __iter__(self):
                return iter(kids)
        p = Parent()
        got = list(f(p))
        ctx.prove("all_code_data.self_first", z3.BoolVal(bool(got) and got[0] is p))
        ctx.prove("all_code_data.then_the_subtree_of_every_child_in_order(equal code objects under different parents are all yielded)",
                  z3.BoolVal(got[1:] == [("subtree", 1), grand(), ("subtree", 2), grand(), ("subtree", 3), grand()] and log == [1, 2, 3]), detail=repr(got[1:])[:300])
    harness("iter.all_code_data.inductive_step", props=["C14"], functions=["code_data.CodeData.all_code_data"], configs="all",
            assumes=["meta-step: structural induction over the nesting depth (the recursive call on a child is the hypothesis)"],
            notes="modular recursion: all_code_data yields the object itself first and then, for every child that iteration yields, that child's whole subtree")(h_all)


_register_iter_generic()
