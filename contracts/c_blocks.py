"""Contracts for code_data/_blocks.py: operand bytes, operand classification, operand tables, block building.

Spec functions are transcriptions of CPython (Python/wordcode_helpers.h `instrsize`/`write_op_arg`,
Python/ceval.c EXTENDED_ARG folding with a 32-bit `int oparg`, Lib/dis.py `_get_instructions_bytes`).
"""
from __future__ import annotations

import ast
import copy
import itertools

import z3

import code_data
import code_data._blocks as B
from code_data import Cellvar, Constant, Freevar, Instruction, Jump, Name, NoArg, Varname

from pcv import rewrite
from pcv.core import (Ctx, PathAbort, SymArrSeq, SymBool, SymInt, SymMap, Unsupported, plen, zint)
from pcv.registry import harness
from .util import Z, cached, in_range

TWO31, TWO32 = 2 ** 31, 2 ** 32


def real(qualname):
    """The real function object of the imported /repo module (source location logged for the evidence)."""
    rewrite.Source.of(B).get_def(qualname)
    obj = B
    for p in qualname.split("."):
        obj = getattr(obj, p)
    return obj


# --------------------------------------------------------------------------------------------------
# _instrsize

def spec_unsigned(a):
    """CPython passes the operand as `unsigned int`."""
    return z3.If(a < 0, a + TWO32, a)


@harness("blocks._instrsize.spec", props=["C01", "C03", "C05", "C06"], functions=["code_data._blocks._instrsize"], configs="any",
         notes="result is CPython's instrsize(): the minimal n in 1..4 with (unsigned)arg < 256**n; all ints in [-2^31, 2^32)")
def h_instrsize(ctx, cfg):
    f = real("_instrsize")
    a = ctx.input("arg", SymInt.fresh("arg"))
    ctx.assume(z3.And(a.z >= -TWO31, a.z < TWO32), "pre: operand fits CPython's 32-bit oparg")
    n = f(a)
    u = spec_unsigned(a.z)
    if isinstance(n, SymInt):        # a closed-form computation instead of a case split: the same three clauses, by cases on the symbolic result
        ctx.prove("post.size_in_1..4", z3.And(n.z >= 1, n.z <= 4))
        ctx.prove("post.operand_fits_in_n_bytes", z3.And(*[z3.Implies(n.z == k, u < 256 ** k) for k in (1, 2, 3, 4)]))
        ctx.prove("post.n_is_minimal", z3.And(*[z3.Implies(n.z == k, u >= 256 ** (k - 1)) for k in (2, 3, 4)]))
        return
    if not isinstance(n, int):
        raise Unsupported("symbolic size")
    ctx.prove("post.size_in_1..4", z3.BoolVal(1 <= n <= 4))
    ctx.prove("post.operand_fits_in_n_bytes", u < 256 ** n)
    ctx.prove("post.n_is_minimal", z3.BoolVal(True) if n == 1 else u >= 256 ** (n - 1))


@harness("blocks._instrsize.monotone", props=["C03", "C05", "C06"], functions=["code_data._blocks._instrsize"], configs="any",
         notes="0 <= a <= b  =>  size(a) <= size(b): operand growth never shrinks an instruction (termination variant of the relaxation loop)")
def h_instrsize_mono(ctx, cfg):
    f = real("_instrsize")
    a, b = ctx.input("a", SymInt.fresh("a")), ctx.input("b", SymInt.fresh("b"))
    ctx.assume(z3.And(a.z >= 0, a.z <= b.z), "pre")
    na, nb = f(a), f(b)
    ctx.prove("post.monotone", (zint(na) <= zint(nb)) if isinstance(na, SymInt) or isinstance(nb, SymInt) else z3.BoolVal(na <= nb))


@harness("blocks._instrsize.canary", props=["C01", "C03"], functions=["code_data._blocks._instrsize"], configs="any", expect="failed",
         notes="known-false claim `_instrsize(arg) == 1` must be refuted (vacuity guard)")
def h_instrsize_canary(ctx, cfg):
    f = real("_instrsize")
    a = ctx.input("arg", SymInt.fresh("arg"))
    ctx.assume(z3.And(a.z >= -TWO31, a.z < TWO32))
    n = f(a)
    ctx.prove("canary.size_is_always_1", (n.z == 1) if isinstance(n, SymInt) else z3.BoolVal(n == 1))


# --------------------------------------------------------------------------------------------------
# _parse_bytes vs CPython's operand folding

def spec_oparg(bs):
    """ceval.c: `oparg |= oldoparg << 8` on a C int (wraps at 32 bits); Lib/dis.py _unpack_opargs agrees below 2^31."""
    arg = z3.IntVal(0)
    for k, b in enumerate(bs):
        arg = arg + Z(b)
        if k < len(bs) - 1:
            arg = arg * 256
            arg = z3.If(arg > TWO31 - 1, arg - TWO32, arg)
    return arg


def _mk_instr_bytes(ctx, tag, n, ext):
    bs = [ctx.input("%s_b%d" % (tag, k), SymInt.fresh("%s_b%d" % (tag, k))) for k in range(n)]
    for b in bs:
        ctx.assume(in_range(b, 0, 255), "pre: bytes")
    op = ctx.input("%s_op" % tag, SymInt.fresh("%s_op" % tag))
    ctx.assume(z3.And(in_range(op, 0, 255), op.z != ext), "pre: last unit is not EXTENDED_ARG")
    raw = []
    for k, b in enumerate(bs):
        raw += [ext if k < n - 1 else op, b]
    return bs, op, raw


def _register_parse():
    for n1, n2 in itertools.product((1, 2, 3, 4), repeat=2):
        def h(ctx, cfg, n1=n1, n2=n2):
            f = real("_parse_bytes")
            ext = cfg.tables["EXTENDED_ARG"]
            bs1, op1, raw1 = _mk_instr_bytes(ctx, "i1", n1, ext)
            bs2, op2, raw2 = _mk_instr_bytes(ctx, "i2", n2, ext)
            out = list(f(raw1 + raw2))
            ctx.prove("post.one_tuple_per_instruction", z3.BoolVal(len(out) == 2))
            for (opcode, arg, n_args, first, nxt), bs, op, n, base in ((out[0], bs1, op1, n1, 0), (out[1], bs2, op2, n2, 2 * n1)):
                ctx.prove("post.opcode_is_last_unit", Z(opcode) == op.z)
                ctx.prove("post.arg_equals_cpython_oparg", Z(arg) == spec_oparg(bs))
                ctx.prove("post.n_args_counts_prefixes_plus_one", z3.BoolVal(n_args == n))
                ctx.prove("post.first_offset_is_first_prefix", z3.BoolVal(first == base))
                ctx.prove("post.next_offset", z3.BoolVal(nxt == base + 2 * n))
        harness("blocks._parse_bytes.cpython_oparg[n=%d,%d]" % (n1, n2), props=["C01", "C02", "C13"],
                functions=["code_data._blocks._parse_bytes"], configs="all",
                notes="two consecutive instructions with %d and %d code units, all byte values: folding equals ceval's 32-bit oparg; state resets between instructions" % (n1, n2))(h)


_register_parse()


# --------------------------------------------------------------------------------------------------
# emission loop of blocks_to_bytes (fragment) and parse . emit

def emit_fragment():
    def build():
        src = rewrite.Source.of(B)
        fn = src.get_def("blocks_to_bytes")
        loop = rewrite.find_stmt(fn, lambda n, t: isinstance(n, ast.For) and "reversed(range(n_args))" in ast.unparse(n.iter),
                                 "for i in reversed(range(n_args)) [EXTENDED_ARG emission loop]")
        frag = rewrite.make_function("emit_fragment", ["instruction", "arg_value", "n_args", "bytes_"], [loop],
                                     B.__name__, "blocks_to_bytes", "emission loop `for i in reversed(range(n_args))`; free variables become parameters")
        return rewrite.compile_defs(B, [frag], {}, "blocks_to_bytes:emit-loop")["emit_fragment"]
    return cached("emit_fragment", build)


def _register_emit():
    for n in (1, 2, 3, 4):
        def h(ctx, cfg, n=n):
            emit = emit_fragment()
            size, parse = real("_instrsize"), real("_parse_bytes")
            ext = cfg.tables["EXTENDED_ARG"]
            opname = "LOAD_CONST"
            op = cfg.tables["opmap"][opname]
            a = ctx.input("arg", SymInt.fresh("arg"))
            ctx.assume(z3.And(a.z >= -TWO31, a.z < TWO31), "pre: operand is a C int")
            s = size(a)
            if n < s:
                raise PathAbort()   # pre: the width used (override or minimal) is never below the minimal size
            out = []
            emit(Instruction(opname), a, n, out)
            ctx.prove("post.emits_2n_bytes", z3.BoolVal(len(out) == 2 * n))
            for k in range(n):
                ctx.prove("post.opcode_bytes: EXTENDED_ARG prefixes then the opcode", z3.BoolVal(out[2 * k] == (ext if k < n - 1 else op)))
                ctx.prove("post.operand_byte_in_0..255", in_range(out[2 * k + 1], 0, 255))
            parsed = list(parse(out))
            ctx.prove("roundtrip.one_instruction", z3.BoolVal(len(parsed) == 1 and parsed[0][0] == op and parsed[0][2] == n))
            ctx.prove("roundtrip.parse(emit(op,arg,n)).arg == arg", Z(parsed[0][1]) == a.z)
            ctx.prove("post.bytes_read_by_cpython_as_arg", spec_oparg(out[1::2]) == a.z)
        harness("blocks.emit_loop.roundtrip[n=%d]" % n, props=["C01", "C03", "C05", "C06"],
                functions=["code_data._blocks.blocks_to_bytes", "code_data._blocks._parse_bytes", "code_data._blocks._instrsize"],
                configs="all", notes="fragment of blocks_to_bytes; n code units, every operand in [-2^31, 2^31) with n >= _instrsize(arg)")(h)


_register_emit()


# --------------------------------------------------------------------------------------------------
# ToArgs / FromArgs on abstract views

KEYF = z3.Function("constant_key", z3.IntSort(), z3.IntSort())


def keyfn(x):
    """`_hash_fn`: an uninterpreted function of the value (two values may share a key: equal constants, all NaNs)"""
    return SymInt(KEYF(zint(x)))


HASHF = z3.Function("builtin_hash", z3.IntSort(), z3.IntSort())


def phash(x):
    """builtin hash() on a symbolic value: an arbitrary (not injective) function of the value - all that `hash` guarantees"""
    if isinstance(x, SymInt):
        return SymInt(HASHF(x.z))
    return hash(x)


def tables_ns():
    return cached("ToArgs/FromArgs", lambda: rewrite.load(B, ["ToArgs", "FromArgs"], hooks={"len": plen, "hash": phash}, tag="ToArgs,FromArgs"))


def _fresh_toargs(ctx, name):
    """ToArgs over abstract views.  Table entries are opaque value ids; `_hash_fn` is an uninterpreted function KEY of the value, so
    distinct entries may share a key (equal constants, all NaNs)."""
    ns = tables_ns()
    table = SymArrSeq.fresh(name + "_table")
    M = SymMap.fresh(name + "_M")
    F = SymMap.fresh(name + "_F")
    ctx.assume(z3.And(M.size >= 0, F.size >= 0, table.length >= 0), "pre: sizes are non-negative")
    ctx.input(name + "_len", SymInt(table.length))
    ctx.input(name + "_found", M)
    ctx.input(name + "_n_found", SymInt(M.size))
    ctx.input(name + "_first_index_of_key", F)
    try:
        t = ns["ToArgs"](table, M, keyfn, F)
    except TypeError as e:
        raise rewrite.BindingError("ToArgs no longer takes (_args, _index_to_order, _hash_fn, _arg_to_first_index): %s" % e)
    return t, table, M, F


@harness("blocks.ToArgs.found_index.contract", props=["C01", "C02", "C09"], functions=["code_data._blocks.ToArgs.found_index"], configs="any",
         assumes=["dict abstract view: reachable states have size == |dom| (counter-models are repaired before replay)"],
         notes="unbounded table and found-maps; value is table[index] (C02); recorded order is the first-use rank; an override is reported only "
               "when position != rank or an equal entry was found first at another index (C09), and always then (C01)")
def h_found_index(ctx, cfg):
    t, table, M, F = _fresh_toargs(ctx, "t")
    idx = ctx.input("index", SymInt.fresh("index"))
    ctx.assume(z3.And(idx.z >= 0, idx.z < table.length), "pre: WF operand indexes inside its table")
    dom0, val0, size0 = M.dom, M.val, M.size
    Fd0, Fv0 = F.dom, F.val
    value, override = t.found_index(idx)
    entry = z3.Select(table.arr, idx.z)
    key = KEYF(entry)
    rank = z3.If(z3.Select(dom0, idx.z), z3.Select(val0, idx.z), size0)
    first = z3.If(z3.Select(Fd0, key), z3.Select(Fv0, key), idx.z)
    j = z3.Int("j")
    ctx.prove("post.value_is_table_entry", Z(value) == entry)
    ctx.prove("post.recorded_order_is_first_use_rank", z3.And(z3.Select(M.dom, idx.z), z3.Select(M.val, idx.z) == rank))
    ctx.prove("post.frame_other_keys_unchanged",
              z3.ForAll([j], z3.Implies(j != idx.z, z3.And(z3.Select(M.dom, j) == z3.Select(dom0, j), z3.Select(M.val, j) == z3.Select(val0, j)))))
    ctx.prove("post.size_grows_iff_new", M.size == z3.If(z3.Select(dom0, idx.z), size0, size0 + 1))
    ctx.prove("post.first_index_of_key_recorded", z3.And(z3.Select(F.dom, key), z3.Select(F.val, key) == first))
    ctx.prove("post.frame_first_index_other_keys",
              z3.ForAll([j], z3.Implies(j != key, z3.And(z3.Select(F.dom, j) == z3.Select(Fd0, j), z3.Select(F.val, j) == z3.Select(Fv0, j)))))
    if override is None:
        ctx.prove("post.no_override_implies_in_place_and_first_of_its_key(C01)", z3.And(rank == idx.z, first == idx.z))
    else:
        ctx.prove("post.override_only_if_position_differs_from_first_use_rank_or_key_seen_elsewhere(C09)",
                  z3.And(Z(override) == idx.z, z3.Or(rank != idx.z, first != idx.z)))


@harness("blocks.ToArgs.found_index.canary", props=["C09"], functions=["code_data._blocks.ToArgs.found_index"], configs="any", expect="failed",
         notes="known-false: found_index never reports an override")
def h_found_index_canary(ctx, cfg):
    t, table, M, F = _fresh_toargs(ctx, "t")
    idx = SymInt.fresh("index")
    ctx.assume(z3.And(idx.z >= 0, idx.z < table.length))
    value, override = t.found_index(idx)
    ctx.prove("canary.never_overrides", z3.BoolVal(override is None))


def _rel(table, M, F, I, K):
    """Simulation relation between the decoder's maps (M: index -> rank, F: key -> first index found) and the encoder's
    (I: index -> value, K: key -> index); keys are KEY(value)."""
    j, k = z3.Ints("rj rk")
    return z3.And(
        M.size == I.size,
        z3.ForAll([j], z3.Select(I.dom, j) == z3.Select(M.dom, j)),
        z3.ForAll([j], z3.Implies(z3.Select(M.dom, j), z3.And(0 <= j, j < table.length, z3.Select(I.val, j) == z3.Select(table.arr, j)))),
        z3.ForAll([k], z3.Select(K.dom, k) == z3.Select(F.dom, k)),
        z3.ForAll([k], z3.Implies(z3.Select(F.dom, k), z3.Select(K.val, k) == z3.Select(F.val, k))),
        z3.ForAll([k], z3.Implies(z3.Select(F.dom, k), z3.And(z3.Select(M.dom, z3.Select(F.val, k)), KEYF(z3.Select(table.arr, z3.Select(F.val, k))) == k))),
        z3.ForAll([j], z3.Implies(z3.Select(M.dom, j), z3.Select(F.dom, KEYF(z3.Select(table.arr, j))))))


def _sim_setup(ctx):
    ns = tables_ns()
    table = SymArrSeq.fresh("table")
    M, F, I, K = SymMap.fresh("M"), SymMap.fresh("F"), SymMap.fresh("I"), SymMap.fresh("K")
    ctx.assume(z3.And(M.size >= 0, F.size >= 0, table.length >= 0), "pre")
    j = z3.Int("dense_j")
    # first-use-rank discipline (proved for found_index above): the found indices carry ranks 0..|M|-1, so an unfound index >= |M| ... is not needed;
    # what the step needs is that slot |I| is free, i.e. the encoder's map is dense only up to overrides: stated as `|M| not in dom` when no override is used
    ctx.assume(_rel(table, M, F, I, K), "pre: simulation relation")
    idx = ctx.input("index", SymInt.fresh("index"))
    ctx.assume(z3.And(idx.z >= 0, idx.z < table.length), "pre: WF operand in table")
    ctx.input("found", M); ctx.input("first_index_of_key", F)
    return ns, table, M, F, I, K, idx


@harness("blocks.simulation_step(found_index;add)", props=["C01", "C09", "C06"],
         functions=["code_data._blocks.ToArgs.found_index", "code_data._blocks.FromArgs.add", "code_data._blocks.FromArgs.__setitem__", "code_data._blocks.FromArgs.__len__"],
         configs="any",
         assumes=["meta-step: induction over the operand occurrence sequence once base and step are proved",
                  "table entries with equal keys are interchangeable in the emitted table (equal constants; all NaNs identified)"],
         notes="decoder found_index(i) -> (v, ov) then encoder add(v, ov) -> j: j == i and the relation holds again; unbounded tables, "
               "key-duplicate entries allowed (two NaN constants, unmerged equal tuples on 3.7)")
def h_sim_step(ctx, cfg):
    ns, table, M, F, I, K, idx = _sim_setup(ctx)
    t = ns["ToArgs"](table, M, keyfn, F)
    v, ov = t.found_index(idx)
    f = ns["FromArgs"](_i_to_arg=I, _arg_to_i=K, _hash_fn=keyfn)
    got = f.add(v, ov)
    ctx.prove("step.encoder_index_equals_decoder_index", Z(got) == idx.z)
    ctx.prove("step.relation_preserved", _rel(table, M, F, I, K))


@harness("blocks.simulation_step.override_is_justified", props=["C09"],
         functions=["code_data._blocks.ToArgs.found_index", "code_data._blocks.FromArgs.add"], configs="any",
         notes="whenever found_index reports an override although position == first-use rank (an equal entry was found first elsewhere), "
               "the encoder *without* that override returns a different index: removing the override would change the re-encoded code")
def h_sim_override_justified(ctx, cfg):
    ns, table, M, F, I, K, idx = _sim_setup(ctx)
    dom0, val0, size0 = M.dom, M.val, M.size
    t = ns["ToArgs"](table, M, keyfn, F)
    v, ov = t.found_index(idx)
    if ov is None:
        return
    rank = z3.If(z3.Select(dom0, idx.z), z3.Select(val0, idx.z), size0)
    if not ctx.decide(rank == idx.z):
        ctx.reached("override.position_differs_from_rank")
        return
    f = ns["FromArgs"](_i_to_arg=I, _arg_to_i=K, _hash_fn=keyfn)
    got = f.add(v, None)
    ctx.prove("override.at_rank_is_justified: encoder without it returns another index", Z(got) != idx.z)


@harness("blocks.FromArgs.add.contract", props=["C03"],
         functions=["code_data._blocks.FromArgs.add", "code_data._blocks.FromArgs.__setitem__", "code_data._blocks.FromArgs.__len__"], configs="any",
         notes="no override: returns the key's existing index, else |I| which becomes the new slot; override: writes exactly that slot "
               "(collision with a different value trips the real assert = raises); frame: no other slot changes")
def h_fromargs_add(ctx, cfg):
    ns = tables_ns()
    I, K = SymMap.fresh("I"), SymMap.fresh("K")
    ctx.assume(I.size >= 0, "pre")
    v = ctx.input("value_key", SymInt.fresh("v"))
    has_ov = ctx.decide(z3.Bool("has_override"))
    ov = ctx.input("override", SymInt.fresh("ov")) if has_ov else None
    I0d, I0v, I0s, K0d, K0v = I.dom, I.val, I.size, K.dom, K.val
    f = ns["FromArgs"](_i_to_arg=I, _arg_to_i=K, _hash_fn=lambda x: x)
    try:
        got = f.add(v, ov)
    except AssertionError:
        # collision: slot taken by a different value -> raising is what C03 demands
        slot = Z(ov) if has_ov else I0s     # without an override the next slot |I| is written: occupied only if overrides left a gap
        ctx.prove("raise.only_on_collision", z3.And(z3.Select(I0d, slot), z3.Select(I0v, slot) != v.z))
        if not has_ov:
            ctx.prove("raise.without_override_only_for_new_key", z3.Not(z3.Select(K0d, v.z)))
        return
    j = z3.Int("j")
    if has_ov:
        ctx.prove("post.override_returns_override", Z(got) == ov.z)
        slot = ov.z
    else:
        ctx.prove("post.no_override_existing_key_or_next_slot",
                  Z(got) == z3.If(z3.Select(K0d, v.z), z3.Select(K0v, v.z), I0s))
        slot = z3.If(z3.Select(K0d, v.z), z3.IntVal(-1), I0s)
    ctx.prove("post.frame_I", z3.ForAll([j], z3.Implies(j != slot, z3.And(z3.Select(I.dom, j) == z3.Select(I0d, j), z3.Select(I.val, j) == z3.Select(I0v, j)))))
    ctx.prove("post.slot_holds_value", z3.Implies(slot >= 0, z3.And(z3.Select(I.dom, slot), z3.Select(I.val, slot) == v.z)))
    ctx.prove("post.never_overwrites_an_occupied_slot_with_a_different_value(C03: collide => raise)", z3.Implies(z3.And(slot >= 0, z3.Select(I0d, slot)), z3.Select(I0v, slot) == v.z))
    ctx.prove("post.key_resolves_to_first_index_stored", z3.Implies(slot >= 0, z3.And(z3.Select(K.dom, v.z), z3.Select(K.val, v.z) == z3.If(z3.Select(K0d, v.z), z3.Select(K0v, v.z), slot))))
    ctx.prove("post.frame_K", z3.ForAll([j], z3.Implies(j != v.z, z3.And(z3.Select(K.dom, j) == z3.Select(K0d, j), z3.Select(K.val, j) == z3.Select(K0v, j)))))


# --------------------------------------------------------------------------------------------------
# to_arg vs CPython's classification (dis) and jump scaling

def to_arg_ns():
    return cached("to_arg", lambda: rewrite.load(B, ["ToArgs", "to_arg"], hooks={"len": plen}, tag="to_arg"))


@harness("blocks.to_arg.cpython_reading", props=["C02", "C13", "C01"], functions=["code_data._blocks.to_arg", "code_data._blocks.ToArgs.found_index"], configs="all",
         cost=6,
         assumes=["WF(c): every table operand indexes inside its table; hasfree operands inside cellvars+freevars"],
         notes="symbolic opcode in 0..255 (forks once per listed opcode), symbolic operand and tables: classification and resolution equal "
               "Lib/dis.py (hasjabs: arg*s, hasjrel: next+arg*s with s=2 from 3.10; names/locals/consts: table[arg]; hasfree: cells before frees)")
def h_to_arg(ctx, cfg):
    ns = to_arg_ns()
    T = cfg.tables
    op = ctx.input("opcode", SymInt.fresh("opcode"))
    arg = ctx.input("arg", SymInt.fresh("arg"))
    nxt = ctx.input("next_offset", SymInt.fresh("next_offset"))
    ctx.assume(z3.And(in_range(op, 0, 255), arg.z >= 0, nxt.z >= 2), "pre")
    cls = {k: z3.Or(*[op.z == o for o in T[k]]) if T[k] else z3.BoolVal(False) for k in ("hasjabs", "hasjrel", "hasname", "haslocal", "hasfree", "hasconst")}
    tabs = {}
    for nm in ("names", "varnames", "cellvars", "constants"):
        table = SymArrSeq.fresh(nm)
        M = SymMap.fresh(nm + "_M")
        ctx.assume(z3.And(M.size >= 0, table.length >= 0), "pre")
        tabs[nm] = (ns["ToArgs"](table, M, lambda x: x, SymMap.fresh(nm + "_F")), table)
    freevars = SymArrSeq.fresh("freevars")
    ctx.assume(freevars.length >= 0, "pre")
    ctx.assume(z3.Implies(cls["hasname"], arg.z < tabs["names"][1].length), "pre: WF")
    ctx.assume(z3.Implies(cls["haslocal"], arg.z < tabs["varnames"][1].length), "pre: WF")
    ctx.assume(z3.Implies(cls["hasconst"], arg.z < tabs["constants"][1].length), "pre: WF")
    ctx.assume(z3.Implies(cls["hasfree"], arg.z < tabs["cellvars"][1].length + freevars.length), "pre: WF")
    s = 2 if cfg.atleast_310 else 1
    r = ns["to_arg"](op, arg, nxt, tabs["names"][0], tabs["varnames"][0], freevars, tabs["cellvars"][0], tabs["constants"][0])
    if isinstance(r, Jump):
        if r.relative is True:
            ctx.prove("post.relative_jump_iff_hasjrel", cls["hasjrel"])
            ctx.prove("post.relative_target == next_offset + arg*scale", Z(r.target) == nxt.z + s * arg.z)
        else:
            ctx.prove("post.absolute_jump_iff_hasjabs", z3.And(cls["hasjabs"], z3.BoolVal(r.relative is False)))
            ctx.prove("post.absolute_target == arg*scale", Z(r.target) == s * arg.z)
    elif isinstance(r, Name):
        ctx.prove("post.name_iff_hasname", cls["hasname"])
        ctx.prove("post.name == co_names[arg]", Z(r.name) == z3.Select(tabs["names"][1].arr, arg.z))
    elif isinstance(r, Varname):
        ctx.prove("post.varname_iff_haslocal", cls["haslocal"])
        ctx.prove("post.varname == co_varnames[arg]", Z(r.varname) == z3.Select(tabs["varnames"][1].arr, arg.z))
    elif isinstance(r, Cellvar):
        ctx.prove("post.cellvar_iff_hasfree_and_arg_below_ncells", z3.And(cls["hasfree"], arg.z < tabs["cellvars"][1].length))
        ctx.prove("post.cellvar == co_cellvars[arg]", Z(r.cellvar) == z3.Select(tabs["cellvars"][1].arr, arg.z))
    elif isinstance(r, Freevar):
        ctx.prove("post.freevar_iff_hasfree_and_arg_from_ncells", z3.And(cls["hasfree"], arg.z >= tabs["cellvars"][1].length))
        ctx.prove("post.freevar == co_freevars[arg - ncells]", Z(r.freevar) == z3.Select(freevars.arr, arg.z - tabs["cellvars"][1].length))
    elif isinstance(r, Constant):
        ctx.prove("post.constant_iff_hasconst", cls["hasconst"])
        ctx.prove("post.constant == co_consts[arg]", Z(r.constant) == z3.Select(tabs["constants"][1].arr, arg.z))
    elif isinstance(r, NoArg):
        ctx.prove("post.noarg_iff_below_HAVE_ARGUMENT_and_unclassified", z3.And(op.z < T["HAVE_ARGUMENT"], z3.Not(z3.Or(*cls.values()))))
        ctx.prove("post.noarg_keeps_byte", Z(r._arg) == arg.z)
    else:
        ctx.prove("post.raw_int_iff_has_argument_and_unclassified", z3.And(op.z >= T["HAVE_ARGUMENT"], z3.Not(z3.Or(*cls.values()))))
        ctx.prove("post.raw_int_is_arg", Z(r) == arg.z)


@harness("blocks.opcode_classes_disjoint", props=["C02"], functions=[], configs="all",
         notes="the opcode class lists of the interpreter's dis module are pairwise disjoint, so the order of to_arg's tests cannot matter (finite check, no solver)")
def h_disjoint(ctx, cfg):
    T = cfg.tables
    ks = ("hasjabs", "hasjrel", "hasname", "haslocal", "hasfree", "hasconst")
    for a, b in itertools.combinations(ks, 2):
        ctx.prove("disjoint.%s.%s" % (a, b), z3.BoolVal(not (set(T[a]) & set(T[b]))))
    ctx.prove("classified_opcodes_have_arguments", z3.BoolVal(all(o >= T["HAVE_ARGUMENT"] for k in ks for o in T[k])))


# --------------------------------------------------------------------------------------------------
# _parse_bytes as a state machine: one loop iteration on a generic code unit (any number of EXTENDED_ARG prefixes)

def parse_step():
    def build():
        src = rewrite.Source.of(B)
        fn = src.get_def("_parse_bytes")
        loop = rewrite.find_stmt(fn, lambda n, t: isinstance(n, ast.For), "for i in range(0, len(b), 2)")
        if ast.unparse(loop.iter) != "range(0, len(b), 2)" or ast.unparse(loop.target) != "i":
            raise rewrite.BindingError("_parse_bytes loop changed")
        ret = ast.parse("return (n_args, arg)").body[0]
        return rewrite.make_function("parse_step", ["b", "i", "n_args", "arg"], list(loop.body) + [ret], B.__name__, "_parse_bytes", "loop body on a generic code unit; loop-carried state (n_args, arg) becomes parameters and the return value")
    return cached("parse_step", build)


def _register_parse_step():
    for k in (0, 1, 2, 3):
        def h(ctx, cfg, k=k):
            frag = parse_step()
            step = rewrite.compile_defs(B, [copy.deepcopy(frag)], {}, "_parse_bytes:step")["parse_step"]
            ext = cfg.tables["EXTENDED_ARG"]
            op = ctx.input("opcode", SymInt.fresh("opcode"))
            byte = ctx.input("byte", SymInt.fresh("byte"))
            arg = ctx.input("folded_so_far", SymInt.fresh("arg"))
            i = ctx.input("unit_offset", SymInt.fresh("i"))
            n_args = k
            ctx.assume(z3.And(in_range(op, 0, 255), in_range(byte, 0, 255), i.z >= 2 * k, i.z % 2 == 0), "pre: unit")
            if k == 0:
                ctx.assume(arg.z == 0, "loop invariant: state is reset at an instruction start")
            elif k < 3:
                ctx.assume(z3.And(arg.z % 256 == 0, arg.z >= 0, arg.z < 256 ** (k + 1)), "loop invariant: k prefixes folded")
            else:
                ctx.assume(z3.And(arg.z % 256 == 0, arg.z >= -TWO31, arg.z < TWO31), "loop invariant: three prefixes folded into a C int")

            class Units:
                def __getitem__(self, kk):
                    kz = zint(kk)
                    if ctx.decide(kz == i.z):
                        return op
                    if ctx.decide(kz == i.z + 1):
                        return byte
                    raise Unsupported("read of another unit")
            g = step(Units(), i, n_args, arg)
            yields = []
            try:
                while True:
                    yields.append(next(g))
            except StopIteration as stop:
                n2, a2 = stop.value
            if ctx.decide(op.z == ext):
                if k == 3:
                    raise PathAbort()       # WF: CPython never emits more than three prefixes
                ctx.prove("ext.yields_nothing", z3.BoolVal(not yields))
                ctx.prove("ext.counts_the_prefix", z3.BoolVal(n2 == k + 1))
                folded = (arg.z + byte.z) * 256
                ctx.prove("ext.folds_like_ceval(oparg << 8 with 32-bit wrap)", Z(a2) == z3.If(folded > TWO31 - 1, folded - TWO32, folded))
                if k + 1 < 3:
                    ctx.prove("ext.invariant_preserved", z3.And(Z(a2) % 256 == 0, Z(a2) >= 0, Z(a2) < 256 ** (k + 2)))
                else:
                    ctx.prove("ext.invariant_preserved", z3.And(Z(a2) % 256 == 0, Z(a2) >= -TWO31, Z(a2) < TWO31))
            else:
                ctx.prove("instr.yields_exactly_one_tuple", z3.BoolVal(len(yields) == 1))
                o, a, n, first, nxt = yields[0]
                ctx.prove("instr.opcode", Z(o) == op.z)
                ctx.prove("instr.operand_is_folded_prefixes_plus_byte", Z(a) == arg.z + byte.z)
                ctx.prove("instr.unit_count", z3.BoolVal(n == k + 1))
                ctx.prove("instr.first_offset_is_the_first_prefix", Z(first) == i.z - 2 * k)
                ctx.prove("instr.next_offset", Z(nxt) == i.z + 2)
                ctx.prove("instr.state_reset", z3.BoolVal(n2 == 0 and a2 == 0))
        harness("blocks._parse_bytes.loop_step[prefixes=%d]" % k, props=["C01", "C02", "C13"], functions=["code_data._blocks._parse_bytes"], configs="all",
                assumes=["induction over the code units is the meta-step; `for i in range(0, len(b), 2)` visits the units in order", "WF: at most three EXTENDED_ARG prefixes (CPython never emits more)"],
                notes="one loop iteration on a generic unit at a symbolic offset with %d prefixes folded so far: an EXTENDED_ARG unit yields nothing and folds the byte as ceval does (32-bit wrap), "
                      "keeping the state invariant; any other unit yields (opcode, folded|byte, units, first offset, next offset) and resets the state - hence for code of any length" % k)(h)


_register_parse_step()
