"""Contracts for code_data/_normalize.py (C05, C06): normalize keeps every public field and resets every private field,
recursively; it is idempotent and the identity on normal forms.

The real `normalize` function object runs unmodified on real dataclass instances whose scalar fields are proxies
(`dataclasses.replace` is record update).  Recursion through containers is covered per constructor (structural induction: the
recursive call on a component is exercised on components that are themselves generic instances of each constructor).
"""
from __future__ import annotations

import dataclasses
import itertools

import z3

import code_data
import code_data._normalize as N
from code_data import AdditionalLine, Args, Cellvar, CodeData, Constant, Freevar, Function, Instruction, Jump, Name, NoArg, Varname

from pcv import rewrite
from pcv.core import SymInt, SymName, Unsupported
from pcv.registry import harness
from .util import Z

PRIVATE_DEFAULTS = {
    "Instruction": {"_n_args_override": None, "_line_offsets_override": ()},
    "Name": {"_index_override": None}, "Varname": {"_index_override": None}, "Cellvar": {"_index_override": None}, "Constant": {"_index_override": None},
    "NoArg": {"_arg": 0},
    "CodeData": {"_nested": False, "_additional_line": None, "_additional_args": ()},
}


def real_normalize():
    rewrite.Source.of(N).get_def("normalize")
    return N.normalize


def same(ctx, label, a, b):
    """a (result field) equals b (input field): symbolic ints by the solver, everything else natively"""
    if isinstance(a, SymInt) or isinstance(b, SymInt):
        if a is None or b is None:
            ctx.prove(label, z3.BoolVal(False))
        else:
            ctx.prove(label, Z(a) == Z(b))
    else:
        ctx.prove(label, z3.BoolVal(a is b or (type(a) is type(b) and a == b)))


def sym(ctx, name):
    return ctx.input(name, SymInt.fresh(name))


def mk_args(ctx, kind, tag):
    """a generic instance of each Arg constructor, every int field symbolic"""
    ov = sym(ctx, tag + "_override") if ctx.decide(z3.Bool(tag + "_has_override")) else None
    if kind == "Name":
        return Name("n", ov)
    if kind == "Varname":
        return Varname("v", ov)
    if kind == "Cellvar":
        return Cellvar("c", ov)
    if kind == "Freevar":
        return Freevar("f")
    if kind == "Constant":
        return Constant(sym(ctx, tag + "_const"), ov)
    if kind == "Jump":
        return Jump(sym(ctx, tag + "_target"), True)
    if kind == "NoArg":
        return NoArg(sym(ctx, tag + "_payload"))
    if kind == "int":
        return sym(ctx, tag + "_raw")
    raise ValueError(kind)


ARG_KINDS = ["Name", "Varname", "Cellvar", "Freevar", "Constant", "Jump", "NoArg", "int"]


def check_arg(ctx, label, before, after):
    """postcondition of normalize on an Arg"""
    ctx.prove(label + ".same_constructor", z3.BoolVal(type(before) is type(after) or (isinstance(before, SymInt) and isinstance(after, SymInt))))
    if isinstance(before, (Name, Varname, Cellvar, Constant)):
        ctx.prove(label + "._index_override_is_reset", z3.BoolVal(after._index_override is None))
        pub = {"Name": "name", "Varname": "varname", "Cellvar": "cellvar", "Constant": "constant"}[type(before).__name__]
        same(ctx, label + ".public_field_kept", getattr(after, pub), getattr(before, pub))
    elif isinstance(before, NoArg):
        ctx.prove(label + ".payload_is_reset", z3.BoolVal(type(after._arg) is int and after._arg == 0))
    elif isinstance(before, Jump):
        same(ctx, label + ".target_kept", after.target, before.target)
        ctx.prove(label + ".relative_kept", z3.BoolVal(after.relative is before.relative))
    elif isinstance(before, Freevar):
        ctx.prove(label + ".kept", z3.BoolVal(after == before))
    else:
        same(ctx, label + ".raw_int_kept", after, before)


def _register():
    for kind in ARG_KINDS:
        def h(ctx, cfg, kind=kind):
            normalize = real_normalize()
            a = mk_args(ctx, kind, "a")
            r = normalize(a)
            check_arg(ctx, "post", a, r)
            r2 = normalize(r)
            check_arg(ctx, "idempotent", r, r2)
        harness("normalize.arg[%s]" % kind, props=["C05", "C06"], functions=["code_data._normalize.normalize"], configs="any",
                notes="generic %s with symbolic fields: private field reset, public fields kept, second application changes nothing" % kind)(h)

    for kind in ARG_KINDS:
        def h(ctx, cfg, kind=kind):
            normalize = real_normalize()
            a = mk_args(ctx, kind, "a")
            n_args = sym(ctx, "n_args") if ctx.decide(z3.Bool("has_n_args")) else None
            line = sym(ctx, "line") if ctx.decide(z3.Bool("has_line")) else None
            offs = (sym(ctx, "off0"), sym(ctx, "off1")) if ctx.decide(z3.Bool("has_offsets")) else ()
            ins = Instruction("OP", a, n_args, line, offs)
            r = normalize(ins)
            ctx.prove("post.is_instruction", z3.BoolVal(type(r) is Instruction and r.name == "OP"))
            ctx.prove("post._n_args_override_is_reset", z3.BoolVal(r._n_args_override is None))
            ctx.prove("post._line_offsets_override_is_reset", z3.BoolVal(r._line_offsets_override == ()))
            if line is None:
                ctx.prove("post.line_number_kept", z3.BoolVal(r.line_number is None))
            else:
                same(ctx, "post.line_number_kept", r.line_number, line)
            check_arg(ctx, "post.arg", a, r.arg)
        harness("normalize.instruction[arg=%s]" % kind, props=["C05", "C06"], functions=["code_data._normalize.normalize"], configs="any",
                notes="generic Instruction holding a generic %s" % kind)(h)


_register()


@harness("normalize.code_data", props=["C05", "C06"], functions=["code_data._normalize.normalize"], configs="any",
         assumes=["meta-step: structural induction over the CodeData / constant datatype once every constructor case is proved"],
         notes="generic CodeData (two blocks, nested CodeData constant, additional args of every kind, additional line, CO_NESTED): public fields kept, "
               "private fields reset, recursively through the nested code object")
def h_code_data(ctx, cfg):
    normalize = real_normalize()
    inner_ins = Instruction("INNER", Name("in", sym(ctx, "inner_ov")), sym(ctx, "inner_nargs"), sym(ctx, "inner_line"), (sym(ctx, "inner_off"),))
    inner = CodeData(blocks=((inner_ins,),), filename="f", first_line_number=sym(ctx, "inner_first"), name="inner", stacksize=sym(ctx, "inner_stack"),
                     _nested=True, _additional_args=(Varname("x", 0),), _additional_line=AdditionalLine(3, (1,)))
    i0 = Instruction("A", Constant(inner, sym(ctx, "ov0")), None, sym(ctx, "l0"))
    i1 = Instruction("B", Jump(1, False), sym(ctx, "nargs1"), None, (sym(ctx, "o1"),))
    i2 = Instruction("C", NoArg(sym(ctx, "p2")), None, sym(ctx, "l2"))
    fn = Function(Args(("p",), ("a",), "r", ("k",), "kw"), "doc", "GENERATOR")
    first, stack = sym(ctx, "first"), sym(ctx, "stack")
    cd = CodeData(blocks=((i0, i1), (i2,)), filename="file", first_line_number=first, name="nm", stacksize=stack, type=fn, freevars=("fv",),
                  future_annotations=True, _nested=True, _additional_line=AdditionalLine(sym(ctx, "al"), (sym(ctx, "alo"),)),
                  _additional_args=(Name("an", 1), Varname("av", 2), Cellvar("ac", 0), Constant(sym(ctx, "addc"), 3)))
    r = normalize(cd)
    ctx.prove("post.is_code_data", z3.BoolVal(type(r) is CodeData))
    for f, want in PRIVATE_DEFAULTS["CodeData"].items():
        ctx.prove("post.%s_is_reset" % f, z3.BoolVal(getattr(r, f) == want and type(getattr(r, f)) is type(want)))
    for f in ("filename", "name", "type", "freevars", "future_annotations"):
        ctx.prove("post.%s_kept" % f, z3.BoolVal(getattr(r, f) == getattr(cd, f)))
    same(ctx, "post.first_line_number_kept", r.first_line_number, first)
    same(ctx, "post.stacksize_kept", r.stacksize, stack)
    ctx.prove("post.block_structure_kept", z3.BoolVal(len(r.blocks) == 2 and len(r.blocks[0]) == 2 and len(r.blocks[1]) == 1))
    r0, r1, r2 = r.blocks[0][0], r.blocks[0][1], r.blocks[1][0]
    ctx.prove("post.instr0.override_reset", z3.BoolVal(r0.arg._index_override is None and r0._n_args_override is None))
    ctx.prove("post.instr1.private_reset", z3.BoolVal(r1._n_args_override is None and r1._line_offsets_override == ()))
    ctx.prove("post.instr1.jump_kept", z3.BoolVal(r1.arg == Jump(1, False)))
    ctx.prove("post.instr2.payload_reset", z3.BoolVal(r2.arg == NoArg()))
    same(ctx, "post.instr0.line_kept", r0.line_number, i0.line_number)
    same(ctx, "post.instr2.line_kept", r2.line_number, i2.line_number)
    rin = r0.arg.constant
    ctx.prove("nested.is_code_data", z3.BoolVal(type(rin) is CodeData))
    for f, want in PRIVATE_DEFAULTS["CodeData"].items():
        ctx.prove("nested.%s_is_reset" % f, z3.BoolVal(getattr(rin, f) == want))
    ri = rin.blocks[0][0]
    ctx.prove("nested.instruction_private_fields_reset", z3.BoolVal(ri._n_args_override is None and ri._line_offsets_override == () and ri.arg._index_override is None))
    same(ctx, "nested.line_kept", ri.line_number, inner_ins.line_number)
    same(ctx, "nested.first_line_kept", rin.first_line_number, inner.first_line_number)
    # idempotence and identity on normal forms
    r_again = normalize(r)
    ctx.prove("idempotent.structure", z3.BoolVal(type(r_again) is CodeData and len(r_again.blocks) == 2))
    same(ctx, "idempotent.first_line", r_again.first_line_number, first)
    ctx.prove("idempotent.private_fields_stay_reset", z3.BoolVal(all(getattr(r_again, f) == w for f, w in PRIVATE_DEFAULTS["CodeData"].items())
                                                                 and r_again.blocks[0][1]._n_args_override is None and r_again.blocks[1][0].arg == NoArg()))


@harness("normalize.private_fields_enumerated", props=["C05", "C06"], functions=["code_data.CodeData", "code_data.Instruction"], configs="any",
         notes="the private (underscore) fields of the data classes are exactly the ones the normalize contract resets: a new private field "
               "without a reset would otherwise go unnoticed (finite check over dataclasses.fields)")
def h_fields(ctx, cfg):
    classes = [CodeData, Instruction, Jump, Name, Varname, Constant, Freevar, Cellvar, NoArg, Args, Function, AdditionalLine]
    for cls in classes:
        priv = {f.name for f in dataclasses.fields(cls) if f.name.startswith("_")}
        want = set(PRIVATE_DEFAULTS.get(cls.__name__, {}))
        ctx.prove("private_fields[%s]" % cls.__name__, z3.BoolVal(priv == want), detail="%r vs contract %r" % (sorted(priv), sorted(want)))
        for f in dataclasses.fields(cls):
            if f.name in want:
                d = f.default if f.default is not dataclasses.MISSING else f.default_factory()
                ctx.prove("private_default[%s.%s]" % (cls.__name__, f.name), z3.BoolVal(d == PRIVATE_DEFAULTS[cls.__name__][f.name]))


@harness("normalize.canary", props=["C05", "C06"], functions=["code_data._normalize.normalize"], configs="any", expect="failed",
         notes="known-false: normalize keeps the position override")
def h_canary(ctx, cfg):
    normalize = real_normalize()
    a = Name("n", sym(ctx, "ov"))
    r = normalize(a)
    ctx.prove("canary.override_kept", z3.BoolVal(r._index_override is not None))
