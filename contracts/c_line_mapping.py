"""Contracts for code_data/_line_mapping.py (C10, C01, C02, C03).

Oracles are CPython's readers: lnotab = `PyCode_Addr2Line` (Objects/lnotab_notes.txt), linetable = `co_lines()` sections; and its
assemblers (`assemble_lnotab`, `assemble_line_range` in Python/compile.c), transcribed in rtc/lt_models.py and validated there.
"""
from __future__ import annotations

import ast
import copy
import itertools

import z3

import code_data._line_mapping as L

from pcv import rewrite
from pcv.core import Ctx, PathAbort, SymBool, SymInt, Unsupported, plen, sb, zint
from pcv.registry import harness
from .util import Z, cached, in_range


# --------------------------------------------------------------------------------------------------
# stage 1: bytes <-> items

class _IntFromBytesRouter(ast.NodeTransformer):
    def visit_Call(self, n):
        self.generic_visit(n)
        if isinstance(n.func, ast.Attribute) and n.func.attr == "from_bytes" and isinstance(n.func.value, ast.Name) and n.func.value.id == "int":
            rewrite.REWRITE_LOG.append(("external-contract", L.__name__, "bytes_to_items", n.lineno, "int.from_bytes"))
            n.func = ast.copy_location(ast.Name("pvhook_int_from_bytes", ast.Load()), n.func)
        return n


def stage1_ns():
    def build():
        src = rewrite.Source.of(L)
        defs = []
        for q in ("bytes_to_items", "items_to_bytes"):
            node = copy.deepcopy(src.get_def(q))
            node = rewrite.BuiltinRouter({"len", "bytes"}, L.__name__, q).visit(node)
            node = _IntFromBytesRouter().visit(node)
            defs.append(node)

        def h_from_bytes(bs, order, signed=False):
            bs = list(bs)
            if len(bs) == 1 and isinstance(bs[0], SymInt) and signed:
                return SymInt(z3.If(bs[0].z >= 128, bs[0].z - 256, bs[0].z))     # assumed contract of int.from_bytes on one signed byte
            return int.from_bytes(bs, order, signed=signed)

        def h_bytes(x):
            xs = list(x)
            return xs if any(isinstance(v, SymInt) for v in xs) else bytes(xs)
        return rewrite.compile_defs(L, defs, {"pvhook_len": plen, "pvhook_bytes": h_bytes, "pvhook_int_from_bytes": h_from_bytes}, "stage1")
    return cached("lm.stage1", build)


def _register_stage1():
    for n in (1, 2, 3):
        def h(ctx, cfg, n=n):
            ns = stage1_ns()
            raw = []
            for k in range(n):
                b = ctx.input("b%d" % k, SymInt.fresh("b%d" % k))
                l = ctx.input("l%d" % k, SymInt.fresh("l%d" % k))
                ctx.assume(z3.And(in_range(b, 0, 255), in_range(l, 0, 255)), "pre: bytes")
                raw += [b, l]
            items = ns["bytes_to_items"](raw)
            ctx.prove("post.one_item_per_pair", z3.BoolVal(len(items) == n))
            for k, it in enumerate(items):
                ctx.prove("post.bytecode_offset_is_first_byte", Z(it.bytecode_offset) == raw[2 * k].z)
                ctx.prove("post.line_offset_is_signed_second_byte", Z(it.line_offset) == z3.If(raw[2 * k + 1].z >= 128, raw[2 * k + 1].z - 256, raw[2 * k + 1].z))
            back = ns["items_to_bytes"](items)
            ctx.prove("roundtrip.length", z3.BoolVal(len(back) == 2 * n))
            for k in range(2 * n):
                ctx.prove("roundtrip.items_to_bytes(bytes_to_items(b)) == b", Z(back[k]) == raw[k].z)
        harness("lm.bytes_items.roundtrip[pairs=%d]" % n, props=["C10", "C01", "C02"], functions=["code_data._line_mapping.bytes_to_items", "code_data._line_mapping.items_to_bytes"],
                configs="any", assumes=["int.from_bytes([b], 'big', signed=True) == b - 256 if b >= 128 else b", "rule 6: the comprehensions are element-wise (lifting from %d pairs to any length)" % n],
                notes="all byte values; pointwise inverse")(h)

        def h2(ctx, cfg, n=n):
            ns = stage1_ns()
            items = []
            for k in range(n):
                b = ctx.input("b%d" % k, SymInt.fresh("b%d" % k))
                l = ctx.input("l%d" % k, SymInt.fresh("l%d" % k))
                ctx.assume(z3.And(in_range(b, 0, 255), in_range(l, -128, 127)), "pre: representable entry")
                items.append(L.LineTableItem(line_offset=l, bytecode_offset=b))
            raw = ns["items_to_bytes"](items)
            for k in range(2 * n):
                ctx.prove("post.every_byte_in_0..255", in_range(raw[k], 0, 255))
            back = ns["bytes_to_items"](raw)
            for k in range(n):
                ctx.prove("roundtrip.bytes_to_items(items_to_bytes(i)) == i", z3.And(Z(back[k].bytecode_offset) == Z(items[k].bytecode_offset), Z(back[k].line_offset) == Z(items[k].line_offset)))
        harness("lm.items_bytes.roundtrip[items=%d]" % n, props=["C10", "C03"], functions=["code_data._line_mapping.bytes_to_items", "code_data._line_mapping.items_to_bytes"],
                configs="any", notes="all representable entries (0<=b<=255, -128<=l<=127)")(h2)


_register_stage1()


# --------------------------------------------------------------------------------------------------
# stage 2b: expand_items with loop cut-points, ghost emit list

class Ghost:
    """Ghost for the accumulator `expanded_items` (rule 4): running sums and per-append obligations instead of contents."""

    def __init__(self, ctx, is_lt, noline):
        self.ctx, self.is_lt, self.noline = ctx, is_lt, noline
        self.n, self.sum_b, self.sum_l = 0, 0, 0
        self.pending_bytes_after_line = None

    def append(self, item):
        lo, bo = item.line_offset, item.bytecode_offset
        c = self.ctx
        c.prove("emit.bytecode_offset_fits_one_byte", in_range(bo, 0, 254 if self.is_lt else 255))
        c.prove("emit.line_offset_fits_one_signed_byte", in_range(lo, -128, 127))
        if self.is_lt:
            if self.noline:
                c.prove("emit.no_line_section_emits_only_-128(C10 attachment)", Z(lo) == -128)
            else:
                c.prove("emit.lined_section_never_emits_the_no_line_marker", Z(lo) != -128)
        self.n = self.n + 1
        self.sum_b = self.sum_b + bo
        self.sum_l = self.sum_l + lo

    def havoc(self, tag):
        k = self.ctx.fresh("g")
        self.n, self.sum_b, self.sum_l = SymInt.fresh("g_n_" + k), SymInt.fresh("g_sb_" + k), SymInt.fresh("g_sl_" + k)


class PV:
    OPTIONAL = {"line_offset"}

    def __init__(self, ctx, ghost, noline):
        self.ctx, self.ghost, self.noline = ctx, ghost, noline

    def havoc(self, label, name, old):
        if isinstance(old, bool):
            return self.ctx.decide(z3.Bool(self.ctx.fresh(name + "_b")))
        if name in self.OPTIONAL and self.noline:
            if self.ctx.decide(z3.Bool(self.ctx.fresh(name + "_isnone"))):
                return None
        return SymInt.fresh(self.ctx.fresh(name + "_h"))

    def havoc_ghost(self, label):
        self.ghost.havoc(label)

    def assert_inv(self, label, c):
        self.ctx.prove(label, sb(c))

    def assume_inv(self, label, c):
        self.ctx.assume(sb(c), "loop invariant " + label)

    def cut(self):
        raise PathAbort()


# R: what has been emitted plus what is still pending equals the entry (sidecar invariants, keyed by (closure name, loop ordinal))
_R = ("sb(G.sum_b + bytecode_offset == E['b0']) & sb(bytecode_offset >= 0) & "
      "(sb(True) if line_offset is None else sb(G.sum_l + line_offset == E['l0'])) & sb(NOLINE or line_offset is not None) & sb((not NOLINE) or line_offset is None)"
      " & sb(G.n >= 0) & (sb(G.n >= 1) if emitted_extra else sb(True))")
INVS = {
    ("expand_bytecode", 0): _R + " & (sb(True) if (line_offset is None or not is_linetable) else (sb(line_offset >= -127) & sb(line_offset <= 127)))",
    ("expand_line", 0): _R + " & (sb(True) if is_linetable else sb(bytecode_offset <= 255))",
    ("expand_line", 1): _R + " & (sb(True) if is_linetable else sb(bytecode_offset <= 255)) & (sb(True) if line_offset is None else sb(line_offset <= 127))",
}


def expand_ns():
    def build():
        src = rewrite.Source.of(L)
        node = copy.deepcopy(src.get_def("expand_items"))
        w = rewrite.WhileCutter(INVS, L.__name__, "expand_items")
        node = w.visit(node)
        w.check_all_used()
        done = False
        for i, st in enumerate(node.body):     # rule 4: the append-only accumulator is bound to the ghost
            if isinstance(st, ast.Assign) and getattr(st.targets[0], "id", "") == "expanded_items":
                node.body[i] = ast.copy_location(ast.parse("expanded_items = G").body[0], st)
                rewrite.REWRITE_LOG.append(("ghost-accumulator", L.__name__, "expand_items", st.lineno, "expanded_items"))
                done = True
        if not done:
            raise rewrite.BindingError("expand_items: accumulator `expanded_items` not found")
        return node
    return cached("lm.expand", build)


def _register_expand():
    for is_lt, noline in ((False, False), (True, False), (True, True)):
        def h(ctx, cfg, is_lt=is_lt, noline=noline):
            node = expand_ns()
            G = Ghost(ctx, is_lt, noline)
            E = {}
            ns = rewrite.compile_defs(L, [copy.deepcopy(node)], {"G": G, "E": E, "sb": sb, "pv": PV(ctx, G, noline), "NOLINE": noline}, "expand_items:cut")
            b0 = ctx.input("bytecode_offset", SymInt.fresh("b0"))
            ctx.assume(b0.z >= 0, "pre: byte delta is non-negative")
            l0 = None if noline else ctx.input("line_offset", SymInt.fresh("l0"))
            E.update(b0=b0, l0=0 if noline else l0)
            ns["expand_items"]([L.CollapsedLineTableItem(l0, b0)], is_lt)
            ctx.prove("post.bytecode_deltas_sum_to_the_entry", sb(G.sum_b == b0))
            if not noline:
                ctx.prove("post.line_deltas_sum_to_the_entry", sb(G.sum_l == l0))
            ctx.prove("post.at_least_one_entry_emitted", sb(G.n >= 1) if isinstance(G.n, SymInt) else z3.BoolVal(G.n >= 1))
        tag = "linetable,no-line" if noline else "linetable" if is_lt else "lnotab"
        harness("lm.expand_items.sums_and_representability[%s]" % tag, props=["C10", "C01", "C03", "C05", "C06"], functions=["code_data._line_mapping.expand_items"], configs="any",
                notes="one collapsed entry with unbounded deltas; while loops cut at sidecar invariants; every emitted entry fits its byte, the cumulative deltas are preserved, "
                      "no-line sections emit only -128 and lined sections never emit it")(h)


_register_expand()


@harness("lm.expand_items.canary", props=["C10"], functions=["code_data._line_mapping.expand_items"], configs="any", expect="failed",
         notes="known-false: a lined linetable entry is always emitted as a single entry")
def h_expand_canary(ctx, cfg):
    node = expand_ns()
    G = Ghost(ctx, True, False)
    E = {}
    ns = rewrite.compile_defs(L, [copy.deepcopy(node)], {"G": G, "E": E, "sb": sb, "pv": PV(ctx, G, False), "NOLINE": False}, "expand_items:cut")
    b0, l0 = SymInt.fresh("b0"), SymInt.fresh("l0")
    ctx.assume(b0.z >= 0)
    E.update(b0=b0, l0=l0)
    ns["expand_items"]([L.CollapsedLineTableItem(l0, b0)], True)
    ctx.prove("canary.single_entry", sb(G.n == 1) if isinstance(G.n, SymInt) else z3.BoolVal(G.n == 1))


# --------------------------------------------------------------------------------------------------
# stage 2a: collapse_items merge step is semantically neutral under CPython's reader

def _register_merge():
    cases = [(False, False, False)] + [(True, a, b) for a, b in itertools.product([False, True], repeat=2)]
    for is_lt, none0, none1 in cases:
        def h(ctx, cfg, is_lt=is_lt, none0=none0, none1=none1):
            f = L.collapse_items
            rewrite.Source.of(L).get_def("collapse_items")

            def mk(k, isnone):
                b = ctx.input("b%d" % k, SymInt.fresh("b%d" % k))
                l = ctx.input("l%d" % k, SymInt.fresh("l%d" % k))
                ctx.assume(z3.And(in_range(b, 0, 254 if is_lt else 255), in_range(l, -128, 127)), "pre: table entry")
                if isnone:
                    ctx.assume(l.z == -128, "pre: no-line entry")
                elif is_lt:
                    ctx.assume(l.z != -128, "pre: lined entry")
                return L.LineTableItem(line_offset=l, bytecode_offset=b)
            a, b = mk(0, none0), mk(1, none1)
            out = f([a, b], is_lt)
            if len(out) == 2:
                ctx.reached("no_merge")
                return
            m = out[0]
            ba, bb, la, lb = Z(a.bytecode_offset), Z(b.bytecode_offset), Z(a.line_offset), Z(b.line_offset)
            ctx.prove("merge.bytes_total", Z(m.bytecode_offset) == ba + bb)
            if is_lt:
                if none0 != none1:
                    ctx.prove("merge.no_line_and_lined_sections_merge_only_if_one_is_empty", z3.Or(ba == 0, bb == 0))
                if m.line_offset is None:
                    ctx.prove("merge.result_has_no_line_only_if_every_nonempty_part_has_none",
                              z3.And(z3.Or(ba == 0, z3.BoolVal(none0)), z3.Or(bb == 0, z3.BoolVal(none1))))
                else:
                    tot = (0 if none0 else la) + (0 if none1 else lb)
                    ctx.prove("merge.line_total", Z(m.line_offset) == tot)
                    if not none0 and not none1:
                        ctx.prove("merge.first_section_keeps_its_line", z3.Or(ba == 0, lb == 0))
            else:
                ctx.prove("merge.line_total", Z(m.line_offset) == la + lb)
                ctx.prove("merge.dropped_breakpoint_is_shadowed", z3.Or(bb == 0, la == 0))
            if not none0 and not none1:
                # only what the encoder splits back into the same two entries is merged (C10: byte-for-byte): (b, +127)(0, -5) are two line events, not a jump of +122
                back = L.expand_items([L.CollapsedLineTableItem(m.line_offset, m.bytecode_offset)], is_lt)
                ctx.prove("merge.is_undone_by_expand_items(two entries again)", z3.BoolVal(len(back) == 2), detail=repr(back))
                if len(back) == 2:
                    ctx.prove("merge.is_undone_by_expand_items(same entries)", z3.And(Z(back[0].line_offset) == la, Z(back[0].bytecode_offset) == ba, Z(back[1].line_offset) == lb, Z(back[1].bytecode_offset) == bb))
        tag = "linetable,none=(%d,%d)" % (none0, none1) if is_lt else "lnotab"
        harness("lm.collapse_items.merge_step_neutral[%s]" % tag, props=["C10", "C02", "C01"], functions=["code_data._line_mapping.collapse_items", "code_data._line_mapping.expand_items"], configs="any",
                assumes=["meta-step: induction over the backwards loop once one iteration on two generic entries is proved"],
                notes="two symbolic table entries: whenever the real function merges them, CPython's reader assigns every byte the same line before and after")(h)


_register_merge()


# --------------------------------------------------------------------------------------------------
# E2: the whole pipeline on assembler-model tables, symbolic line deltas, concrete boundary byte deltas

def asm_linetable(entries):
    out = []
    for b, l in entries:
        if l is None:
            ld = -128
        else:
            ld = l
            while ld > 127:
                out.append((127, 0)); ld = ld - 127
            while ld < -127:
                out.append((-127, 0)); ld = ld + 127
        while b > 254:
            out.append((ld, 254)); ld = -128 if l is None else 0; b -= 254
        out.append((ld, b))
    return out


def asm_lnotab(entries):
    out = []
    for b, l in entries:
        if b > 255:
            n = b // 255
            out += [(0, 255)] * n
            b -= n * 255
        if l > 127:
            n, rem = 0, l
            while rem >= 127:
                rem = rem - 127; n += 1
            out.append((127, b)); b = 0; out += [(127, 0)] * (n - 1); l = rem
        elif l < -128:
            n, rem = 0, l
            while rem <= -128:
                rem = rem + 128; n += 1
            out.append((-128, b)); b = 0; out += [(-128, 0)] * (n - 1); l = rem
        out.append((l, b))
    return out


def pipeline(ctx, is_lt, bs, nolines, K, v39, tail=4):
    N = len(bs)
    ent = []
    for k in range(N):
        if nolines[k]:
            l = None
        else:
            l = ctx.input("l%d" % k, SymInt.fresh("l%d" % k))
            ctx.assume(in_range(l, -127 * K - 100, 127 * K + 100), "bound: |line delta| <= 127*K+100")
            if is_lt:
                if k > 0 and not nolines[k - 1]:
                    ctx.assume(l.z != 0, "pre: adjacent lined sections differ in line")
            elif v39 or bs[k] == 0:
                ctx.assume(l.z != 0, "pre: assembler skips the event")
        ent.append((bs[k], l))
    table = (asm_linetable if is_lt else asm_lnotab)(ent)
    items = [L.LineTableItem(line_offset=lo, bytecode_offset=bo) for lo, bo in table]
    total = sum(bs) + (0 if is_lt else tail)
    col = L.collapse_items([L.LineTableItem(i.line_offset, i.bytecode_offset) for i in items], is_lt)
    mp = L.items_to_mapping(col, total, is_lt)
    sem = {}
    line, off = 0, 0
    if is_lt:
        for b, l in ent:
            if l is not None:
                line = line + l
            for o in range(off, off + b, 2):
                sem[o] = None if l is None else line
            off += b
    else:
        marks = []
        for b, l in ent:
            off += b
            line = line + l
            marks.append((off, line))
        for o in range(0, total, 2):
            cur = 0
            for a, ln in marks:
                if a <= o:
                    cur = ln
            sem[o] = cur
    for o, want in sem.items():
        got = mp.offset_to_line[o]
        if want is None or got is None:
            ctx.prove("decode.no_line_agreement@%d" % o, z3.BoolVal(want is None and got is None))
        else:
            ctx.prove("decode.line_equals_cpython_reader", Z(got) == Z(want))
    back = L.expand_items(L.mapping_to_items(mp, is_lt), is_lt)
    ctx.prove("reencode.same_number_of_entries", z3.BoolVal(len(back) == len(items)))
    for x, y in zip(back, items):
        ctx.prove("reencode.entry_line_byte_identical", Z(x.line_offset) == Z(y.line_offset))
        ctx.prove("reencode.entry_bytecode_byte_identical", Z(x.bytecode_offset) == Z(y.bytecode_offset))


def _register_pipeline():
    import os
    thorough = os.environ.get("PCV_TIER") == "thorough"
    B1 = [0, 2, 4, 252, 254, 256, 258, 508, 510, 512, 764, 766]
    B2 = [2, 254, 256, 510] if not thorough else [2, 4, 252, 254, 256, 258, 508, 510, 512]
    K1, K2 = (3, 2) if not thorough else (4, 3)
    for fmt in ("lnotab37", "lnotab39", "linetable"):
        is_lt = fmt == "linetable"
        v39 = fmt == "lnotab39"
        cfgs = ["3.10"] if is_lt else (["3.9"] if v39 else ["3.7", "3.8"])
        for b in B1:
            for nol in ((False,), (True,)) if is_lt else ((False,),):
                if b == 0 and (is_lt or nol[0]):
                    continue

                def h(ctx, cfg, is_lt=is_lt, v39=v39, b=b, nol=nol):
                    pipeline(ctx, is_lt, (b,), nol, K1, v39)
                harness("lm.pipeline[%s,b=(%d,)%s]" % (fmt, b, ",no-line" if nol[0] else ""), props=["C10", "C01", "C02"],
                        functions=["code_data._line_mapping." + f for f in ("collapse_items", "items_to_mapping", "mapping_to_items", "expand_items")],
                        configs=cfgs, engine="E2", cost=1,
                        notes="bounded: 1 assembler-model entry, byte delta %d, line delta symbolic within +-(127*%d+100): per-offset lines equal CPython's reader and the re-encoded table is identical" % (b, K1))(h)
        if not is_lt:
            # the last entry sits exactly at the end of the code (a line event for an instruction the optimizer removed): it must survive decoding
            for bs in [(b,) for b in B1 if b] + [(2, 2), (254, 2), (2, 256), (0, 4), (2, 0), (256, 0), (2, 0, 0)]:
                def h(ctx, cfg, v39=v39, bs=bs):
                    pipeline(ctx, False, bs, (False,) * len(bs), K2, v39, tail=0)
                harness("lm.pipeline[%s,b=%s,last-entry-at-end-of-code]" % (fmt, ",".join(map(str, bs))), props=["C10", "C01", "C02"],
                        functions=["code_data._line_mapping." + f for f in ("collapse_items", "items_to_mapping", "mapping_to_items", "expand_items")],
                        configs=cfgs, engine="E2", cost=2,
                        notes="bounded: assembler-model entries %r with the last one at offset == len(co_code); line deltas symbolic within +-(127*%d+100): the entry past the last instruction is kept and the table re-encodes identically" % (bs, K2))(h)
        for b1, b2 in itertools.product(B2, repeat=2):
            for nol in (itertools.product([False, True], repeat=2) if is_lt else [(False, False)]):
                if nol[0] and nol[1]:
                    continue

                def h(ctx, cfg, is_lt=is_lt, v39=v39, bs=(b1, b2), nol=nol):
                    pipeline(ctx, is_lt, bs, nol, K2, v39)
                harness("lm.pipeline[%s,b=(%d,%d),noline=%s]" % (fmt, b1, b2, "".join(str(int(x)) for x in nol)), props=["C10", "C01", "C02"],
                        functions=["code_data._line_mapping." + f for f in ("collapse_items", "items_to_mapping", "mapping_to_items", "expand_items")],
                        configs=cfgs, engine="E2", cost=6,
                        notes="bounded: 2 assembler-model entries, byte deltas (%d,%d), line deltas symbolic within +-(127*%d+100)" % (b1, b2, K2))(h)


_register_pipeline()


# --------------------------------------------------------------------------------------------------
# call sites: to_line_mapping / from_line_mapping compose the stages in order, on the right table, with the right format flag

@harness("lm.to_from_line_mapping.call_sites", props=["C10", "C01", "C02", "C03"], functions=["code_data._line_mapping.to_line_mapping", "code_data._line_mapping.from_line_mapping"], configs="all",
         assumes=["callee contracts: the six stage functions (each discharged by its own harness)"],
         notes="modular: the stage functions are stubs; to_line_mapping reads co_linetable from 3.10 and co_lnotab before, passes the format flag to both later stages and len(co_code) as the "
               "extent; from_line_mapping applies mapping_to_items, expand_items, items_to_bytes in that order with the same flag")
def h_lm_glue(ctx, cfg):
    import types
    ns = rewrite.load(L, ["to_line_mapping", "from_line_mapping"], tag="line_mapping:glue")
    ns["USE_LINETABLE"] = cfg.linetable
    log = []
    ns["bytes_to_items"] = lambda b: (log.append(("bytes_to_items", b)), "ITEMS")[1]
    ns["collapse_items"] = lambda items, lt: (log.append(("collapse_items", items, lt)), "COLLAPSED")[1]
    ns["items_to_mapping"] = lambda items, mx, lt: (log.append(("items_to_mapping", items, mx, lt)), "MAPPING")[1]
    ns["mapping_to_items"] = lambda m, lt: (log.append(("mapping_to_items", m, lt)), "COLLAPSED2")[1]
    ns["expand_items"] = lambda items, lt: (log.append(("expand_items", items, lt)), "EXPANDED")[1]
    ns["items_to_bytes"] = lambda items: (log.append(("items_to_bytes", items)), "BYTES")[1]
    code = types.SimpleNamespace(co_linetable="LINETABLE", co_lnotab="LNOTAB", co_code=b"\x00" * 14)
    r = ns["to_line_mapping"](code)
    lt = cfg.linetable
    ctx.prove("decode.stages_in_order_on_the_interpreter's_table", z3.BoolVal(log == [("bytes_to_items", "LINETABLE" if lt else "LNOTAB"), ("collapse_items", "ITEMS", lt), ("items_to_mapping", "COLLAPSED", 14, lt)] and r == "MAPPING"),
              detail=repr(log))
    del log[:]
    r = ns["from_line_mapping"]("M")
    ctx.prove("encode.stages_in_order_with_the_same_format_flag", z3.BoolVal(log == [("mapping_to_items", "M", lt), ("expand_items", "COLLAPSED2", lt), ("items_to_bytes", "EXPANDED")] and r == "BYTES"), detail=repr(log))


# --------------------------------------------------------------------------------------------------
# LineMapping methods

class _LineDict:
    """dict[int, Optional[int]] with one generic entry (rule 6): what modify_line_offsets iterates and writes"""

    def __init__(self, key, value):
        self.key, self.value, self.writes = key, value, []

    def items(self):
        return [(self.key, self.value)]

    def __getitem__(self, k):
        return self.value

    def __setitem__(self, k, v):
        self.writes.append((k, v))
        self.value = v


@harness("lm.LineMapping.modify_line_offsets", props=["C01", "C02", "C03", "C10"], functions=["code_data._line_mapping.LineMapping.modify_line_offsets"], configs="any",
         assumes=["rule 6: the loop only rewrites the entry it visits"],
         notes="generic entry: a lined entry is shifted by exactly the given amount, an entry without a line is left alone; nothing else is written")
def h_modify(ctx, cfg):
    f = L.LineMapping.modify_line_offsets
    rewrite.Source.of(L).get_def("LineMapping.modify_line_offsets")
    shift = ctx.input("shift", SymInt.fresh("shift"))
    key = ctx.input("offset", SymInt.fresh("offset"))
    # stated over the mapping's contents after the call (whether the method rewrites entries in place or builds a new dict): three generic entries,
    # a lined one, one without a line, another lined one; rule 6 extends this to any number of entries
    l0, l2 = ctx.input("line0", SymInt.fresh("line0")), ctx.input("line2", SymInt.fresh("line2"))
    m = L.LineMapping.__new__(L.LineMapping)
    extra = {4: [0, 1]}
    m.offset_to_line, m.offset_to_additional_line_offsets = {0: l0, 2: None, 4: l2}, extra
    f(m, shift)
    after = m.offset_to_line
    ctx.prove("every_offset_is_still_mapped(an entry without a line is kept, not dropped)", z3.BoolVal(sorted(after) == [0, 2, 4]), detail=repr(sorted(after)))
    if sorted(after) == [0, 2, 4]:
        ctx.prove("lined_entry_shifted_by_the_amount", z3.And(zint(after[0]) == l0.z + shift.z, zint(after[4]) == l2.z + shift.z) if after[0] is not None and after[4] is not None else z3.BoolVal(False))
        ctx.prove("no_line_entry_untouched", z3.BoolVal(after[2] is None))
    ctx.prove("additional_line_offsets_are_left_alone", z3.BoolVal(m.offset_to_additional_line_offsets == {4: [0, 1]}))


@harness("lm.LineMapping.additional_line", props=["C01", "C10", "C08", "C12"], functions=["code_data._line_mapping.LineMapping.pop_additional_line", "code_data._line_mapping.LineMapping.add_additional_line"],
         configs="any", engine="E2",
         notes="bounded case analysis on the leftovers after decoding: nothing left -> None; exactly the entry at len(code) -> AdditionalLine(line, extra offsets) and add_additional_line puts "
               "it back unchanged; anything else -> NotImplementedError (raise rather than drop)")
def h_additional_line(ctx, cfg):
    from code_data import AdditionalLine
    LM = L.LineMapping
    src = rewrite.Source.of(L)
    src.get_def("LineMapping.pop_additional_line")
    src.get_def("LineMapping.add_additional_line")
    n = 10
    ctx.prove("nothing_left", z3.BoolVal(LM({}, {}).pop_additional_line(n) is None))
    m = LM({n: 7}, {n: [1, -2]})
    al = m.pop_additional_line(n)
    ctx.prove("trailing_entry_becomes_the_additional_line", z3.BoolVal(al == AdditionalLine(7, (1, -2)) and type(al.additional_offsets) is tuple))
    try:
        hash(al)
        hashable = True
    except TypeError:
        hashable = False
    ctx.prove("additional_line_is_an_immutable_hashable_value", z3.BoolVal(hashable))
    ctx.prove("trailing_entry_without_extras", z3.BoolVal(LM({n: 7}, {}).pop_additional_line(n) == AdditionalLine(7, ())))
    back = LM({}, {})
    back.add_additional_line(al, n)
    ctx.prove("add_additional_line_is_the_inverse", z3.BoolVal(back.offset_to_line == {n: 7} and back.offset_to_additional_line_offsets == {n: [1, -2]}))
    for leftovers in [({4: 1}, {}), ({n: 1, 4: 1}, {}), ({}, {4: [1]}), ({n: 1}, {4: [1]})]:
        try:
            LM(*[dict(x) for x in leftovers]).pop_additional_line(n)
            ok = False
        except NotImplementedError:
            ok = True
        ctx.prove("other_leftovers_raise_instead_of_being_dropped", z3.BoolVal(ok), detail=repr(leftovers))


# --------------------------------------------------------------------------------------------------
# stage 3 for the 3.10 format, one step on a generic item / generic mapping entry (unbounded)

class _GenericRange:
    """`range(a, b, 2)` with symbolic bounds under rule 6: one generic element i with a <= i < b, i = a (mod 2)"""

    def __init__(self, ctx, a, b, step):
        self.ctx, self.a, self.b, self.step = ctx, a, b, step

    def __iter__(self):
        i = SymInt.fresh(self.ctx.fresh("generic_offset"))
        feasible = z3.And(i.z >= Z(self.a), i.z < Z(self.b), (i.z - Z(self.a)) % self.step == 0)
        if self.ctx.decide(feasible):
            yield i


def i2m_ns():
    def build():
        src = rewrite.Source.of(L)
        node = copy.deepcopy(src.get_def("items_to_mapping"))
        node = rewrite.BuiltinRouter({"range"}, L.__name__, "items_to_mapping").visit(node)
        done = False
        for k, st in enumerate(node.body):      # rule 4: the write-only result dict is bound to a ghost that records the writes
            if isinstance(st, ast.AnnAssign) and getattr(st.target, "id", "") == "offset_to_line":
                node.body[k] = ast.copy_location(ast.parse("offset_to_line = G").body[0], st)
                rewrite.REWRITE_LOG.append(("ghost-accumulator", L.__name__, "items_to_mapping", st.lineno, "offset_to_line"))
                done = True
        if not done:
            raise rewrite.BindingError("items_to_mapping: result dict `offset_to_line` not found")
        return node
    return cached("lm.i2m", build)


@harness("lm.items_to_mapping.linetable_step", props=["C10", "C02", "C01"], functions=["code_data._line_mapping.items_to_mapping"], configs=["3.10"],
         assumes=["rule 6: the inner loop only writes offset_to_line[i] for the offset it visits; induction over the items is the meta-step"],
         notes="3.10 format: a generic section (line delta or none, symbolic length) after a generic previous section: every code unit of [start, start+b) gets the running line + delta "
               "(or no line) - CPython's co_lines() reading - and nothing outside it is written; unbounded values")
def h_i2m_step(ctx, cfg):
    node = i2m_ns()
    writes = []

    class G:
        def __setitem__(self, k, v):
            writes.append((k, v))
    g = G()

    def h_range(a, bb, step=1):
        if not any(isinstance(x, SymInt) for x in (a, bb)):
            return range(a, bb, step)
        return _GenericRange(ctx, a, bb, step)
    ns = rewrite.compile_defs(L, [copy.deepcopy(node)], {"G": g, "pvhook_range": h_range}, "items_to_mapping:linetable-step")
    b0, l0 = ctx.input("previous_bytes", SymInt.fresh("b0")), ctx.input("previous_line_delta", SymInt.fresh("l0"))
    b = ctx.input("section_bytes", SymInt.fresh("b"))
    ctx.assume(z3.And(b0.z >= 0, b0.z % 2 == 0, b.z >= 0, b.z % 2 == 0), "pre: section lengths are whole code units")
    noline = ctx.decide(z3.Bool("section_has_no_line"))
    l = None if noline else ctx.input("line_delta", SymInt.fresh("l"))
    ns["items_to_mapping"]([L.CollapsedLineTableItem(l0, b0), L.CollapsedLineTableItem(l, b)], 0, True)
    for k, v in writes:
        in_first = z3.And(Z(k) >= 0, Z(k) < b0.z)
        in_second = z3.And(Z(k) >= b0.z, Z(k) < b0.z + b.z)
        ctx.prove("write.lands_in_one_of_the_two_sections_on_a_unit_boundary", z3.And(z3.Or(in_first, in_second), Z(k) % 2 == 0))
        if v is None:
            ctx.prove("write.no_line_only_inside_the_no_line_section", z3.And(z3.BoolVal(noline), in_second))
        else:
            ctx.prove("write.line_is_the_running_line_of_its_section", z3.If(in_first, Z(v) == l0.z, z3.And(z3.BoolVal(not noline), Z(v) == l0.z + (0 if noline else l.z))))
    ctx.prove("step.visits_each_section_through_one_generic_offset", z3.BoolVal(len(writes) <= 2))


def m2i_step():
    def build():
        src = rewrite.Source.of(L)
        fn = src.get_def("mapping_to_items")
        branch = rewrite.find_stmt(fn, lambda n, t: isinstance(n, ast.If) and ast.unparse(n.test) == "is_linetable", "if is_linetable: [3.10 branch of mapping_to_items]")
        loop = next((n for n in branch.body if isinstance(n, ast.For)), None)
        if loop is None or ast.unparse(loop.target) != "(bytecode_offset, line_number)":
            raise rewrite.BindingError("mapping_to_items: the 3.10 loop over mapping.offset_to_line.items() changed")
        state = ["section_bytecode_offset", "section_line_number", "last_section_line_number", "section_line_number_diff"]
        ret = ast.parse("return (%s)" % ", ".join(state)).body[0]
        return rewrite.make_function("m2i_step", ["items", "bytecode_offset", "line_number"] + state, list(loop.body) + [ret], L.__name__, "mapping_to_items",
                                     "body of the 3.10 loop on a generic mapping entry; loop-carried state becomes parameters and the return value")
    return cached("lm.m2i_step", build)


def _register_m2i():
    for cur_lined, new_lined in itertools.product([False, True], repeat=2):
        def h(ctx, cfg, cur_lined=cur_lined, new_lined=new_lined):
            frag = m2i_step()
            step = rewrite.compile_defs(L, [copy.deepcopy(frag)], {}, "mapping_to_items:step")["m2i_step"]
            # reader state: R = running line of CPython's reader after the sections emitted so far (= line of the last lined section, 0 at the start)
            R = ctx.input("reader_running_line", SymInt.fresh("R"))
            sbo = ctx.input("section_start", SymInt.fresh("sbo"))
            bo = ctx.input("entry_offset", SymInt.fresh("bo"))
            ctx.assume(z3.And(sbo.z >= 0, bo.z > sbo.z), "pre: the entry lies after the start of the current section")
            sln = ctx.input("section_line", SymInt.fresh("sln")) if cur_lined else None
            ln = ctx.input("entry_line", SymInt.fresh("ln")) if new_lined else None
            # loop invariant (see DESIGN 4/C10): the pending delta makes the reader arrive at the section's line
            slnd = (sln - R) if cur_lined else None
            lsln = sln if cur_lined else R
            items = []
            sbo2, sln2, lsln2, slnd2 = step(items, bo, ln, sbo, sln, lsln, slnd)
            same_section = (cur_lined == new_lined) and (not cur_lined or not ctx.decide(ln.z != sln.z))
            if same_section:
                ctx.prove("same_line.emits_nothing_and_keeps_the_state", z3.BoolVal(items == [] and sbo2 is sbo and lsln2 is lsln and slnd2 is slnd))
                return
            ctx.prove("switch.emits_exactly_the_finished_section", z3.BoolVal(len(items) == 1))
            it = items[0]
            ctx.prove("switch.section_length_is_the_distance_to_its_start", Z(it.bytecode_offset) == bo.z - sbo.z)
            if cur_lined:
                ctx.prove("switch.reader_arrives_at_the_section's_line", z3.And(z3.BoolVal(it.line_offset is not None), R.z + Z(it.line_offset) == sln.z) if it.line_offset is not None else z3.BoolVal(False))
                R2 = sln.z
            else:
                ctx.prove("switch.no_line_section_is_emitted_without_a_line", z3.BoolVal(it.line_offset is None))
                R2 = R.z
            ctx.prove("switch.new_section_starts_at_the_entry", z3.BoolVal(sbo2 is bo) if isinstance(sbo2, SymInt) and sbo2 is bo else Z(sbo2) == bo.z)
            ctx.prove("switch.new_section_line_is_the_entry's", z3.BoolVal(sln2 is None) if ln is None else Z(sln2) == ln.z)
            if new_lined:
                ctx.prove("invariant.pending_delta_leads_the_reader_to_the_new_line", z3.And(z3.BoolVal(slnd2 is not None), R2 + Z(slnd2) == ln.z) if slnd2 is not None else z3.BoolVal(False))
                ctx.prove("invariant.last_lined_section_is_the_new_one", Z(lsln2) == ln.z)
            else:
                ctx.prove("invariant.no_pending_delta_for_a_no_line_section", z3.BoolVal(slnd2 is None))
                ctx.prove("invariant.last_lined_section_unchanged", Z(lsln2) == R2)
        harness("lm.mapping_to_items.linetable_step[current=%s,entry=%s]" % ("lined" if cur_lined else "no-line", "lined" if new_lined else "no-line"), props=["C10", "C01", "C03", "C05", "C06"],
                functions=["code_data._line_mapping.mapping_to_items"], configs=["3.10"],
                assumes=["induction over the mapping entries is the meta-step; the mapping lists every code unit in ascending order (call-site contract of blocks_to_bytes)"],
                notes="3.10 format: loop body on a generic entry under the invariant 'the pending delta leads CPython's reader from the last lined section to the current section's line': "
                      "a section is emitted exactly when the line changes, with the distance to its start as length and a delta that makes the reader arrive at its line; unbounded values")(h)

    def h_first(ctx, cfg):
        frag = m2i_step()
        step = rewrite.compile_defs(L, [copy.deepcopy(frag)], {}, "mapping_to_items:step")["m2i_step"]
        for lined in (True, False):
            ln = ctx.input("first_line", SymInt.fresh("ln0")) if lined else None
            items = []
            sbo, sln, lsln, slnd = step(items, 0, ln, None, None, 0, None)
            ctx.prove("first_entry.emits_nothing", z3.BoolVal(items == []))
            ctx.prove("first_entry.section_starts_at_0", z3.BoolVal(sbo == 0))
            if lined:
                ctx.prove("first_entry.invariant_holds_with_reader_line_0", z3.And(Z(slnd) == ln.z, Z(lsln) == ln.z, Z(sln) == ln.z))
            else:
                ctx.prove("first_entry.invariant_holds_with_reader_line_0", z3.BoolVal(slnd is None and sln is None and lsln == 0))
    harness("lm.mapping_to_items.linetable_first_entry", props=["C10", "C01", "C03", "C05", "C06"], functions=["code_data._line_mapping.mapping_to_items"], configs=["3.10"],
            notes="base case of the induction: after the first entry the invariant holds with the reader's running line 0")(h_first)


_register_m2i()


def m2i_lnotab_step():
    def build():
        src = rewrite.Source.of(L)
        fn = src.get_def("mapping_to_items")
        loops = [n for n in fn.body if isinstance(n, ast.For)]
        if len(loops) != 1 or ast.unparse(loops[0].target) != "(bytecode_offset, line_number)":
            raise rewrite.BindingError("mapping_to_items: the lnotab loop changed")
        ret = ast.parse("return (last_line_number, last_bytecode_offset)").body[0]
        return rewrite.make_function("m2i_lnotab_step", ["items", "mapping", "bytecode_offset", "line_number", "last_line_number", "last_bytecode_offset"], list(loops[0].body) + [ret],
                                     L.__name__, "mapping_to_items", "body of the lnotab loop on a generic mapping entry")
    return cached("lm.m2i_lnotab_step", build)


def _register_m2i_lnotab():
    for n_extra in (0, 1, 2):
        def h(ctx, cfg, n_extra=n_extra):
            frag = m2i_lnotab_step()
            ns = rewrite.compile_defs(L, [copy.deepcopy(frag)], {"pvhook_sum": lambda xs: sum(xs, 0) if xs else 0, "pvhook_list": list}, "mapping_to_items:lnotab-step")
            step = ns["m2i_lnotab_step"]
            last_line, last_bo = ctx.input("reader_line", SymInt.fresh("last_line")), ctx.input("reader_address", SymInt.fresh("last_bo"))
            bo, ln = ctx.input("entry_offset", SymInt.fresh("bo")), ctx.input("entry_line", SymInt.fresh("ln"))
            ctx.assume(z3.And(last_bo.z >= 0, bo.z >= last_bo.z), "pre: entries are visited in ascending order")
            extra = [ctx.input("extra%d" % k, SymInt.fresh("extra%d" % k)) for k in range(n_extra)]

            class Extras:
                def get(self, k, default):
                    return list(extra) if extra else default
            mapping = L.LineMapping.__new__(L.LineMapping)
            mapping.offset_to_line, mapping.offset_to_additional_line_offsets = {}, Extras()
            items = []
            ll2, lb2 = step(items, mapping, bo, ln, last_line, last_bo)
            sum_l = sum((Z(i.line_offset) for i in items), z3.IntVal(0))
            sum_b = sum((Z(i.bytecode_offset) for i in items), z3.IntVal(0))
            ctx.prove("step.line_deltas_lead_the_reader_from_its_line_to_the_entry's_line", sum_l == ln.z - last_line.z)
            if items:
                ctx.prove("step.address_deltas_lead_the_reader_to_the_entry's_offset", sum_b == bo.z - last_bo.z)
                ctx.prove("step.only_the_first_emitted_entry_carries_an_address_delta", z3.And(*[Z(i.bytecode_offset) == 0 for i in items[1:]]) if len(items) > 1 else z3.BoolVal(True))
                ctx.prove("step.extra_zero_width_entries_reproduced_in_order", z3.And(*[Z(a.line_offset) == e.z for a, e in zip(items[len(items) - n_extra:], extra)]) if n_extra else z3.BoolVal(True))
                ctx.prove("invariant.reader_address_is_the_entry's_offset", Z(lb2) == bo.z)
            else:
                ctx.prove("step.nothing_emitted_only_when_the_line_is_unchanged", z3.And(ln.z == last_line.z, z3.BoolVal(n_extra == 0)))
                ctx.prove("invariant.reader_address_unchanged", Z(lb2) == last_bo.z)
            ctx.prove("invariant.reader_line_is_the_entry's_line", Z(ll2) == ln.z)
        harness("lm.mapping_to_items.lnotab_step[extra_entries=%d]" % n_extra, props=["C10", "C01", "C03", "C05", "C06"], functions=["code_data._line_mapping.mapping_to_items"], configs=["3.7", "3.8", "3.9"],
                assumes=["induction over the mapping entries is the meta-step"],
                notes="lnotab format: loop body on a generic mapping entry with %d recorded zero-width entries, under the invariant 'the reader stands at (last offset, last line)': "
                      "the emitted entries lead PyCode_Addr2Line's reader exactly to (entry offset, entry line); unbounded values" % n_extra)(h)


_register_m2i_lnotab()
