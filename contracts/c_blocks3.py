"""Call-site (glue) contracts inside bytes_to_blocks / blocks_to_bytes: the callees' contracts only carry the properties if the
callers pass the right arguments and seed the tables as CPython lays them out."""
from __future__ import annotations

import itertools
import types

import z3

import code_data._blocks as B
import code_data._line_mapping as L
from code_data import Args, Cellvar, Constant, Freevar, Function, Instruction, Jump, Name, NoArg, Varname

from pcv import rewrite
from pcv.core import SymInt, Unsupported
from pcv.registry import harness
from .util import Z, cached


def b2b_ns():
    return cached("bytes_to_blocks", lambda: rewrite.load(B, ["bytes_to_blocks"], hooks={}, tag="bytes_to_blocks:modular"))


def _register_decode_glue():
    cases = itertools.product(["module", "fn-doc", "fn-emptydoc", "fn-nodoc"], [1, 3], ["jrel", "jabs", "const"])
    for kind, n_args, second in cases:
        def h(ctx, cfg, kind=kind, n_args=n_args, second=second):
            ns = b2b_ns()
            T = cfg.tables
            log = []
            opj = T["hasjrel"][0] if second == "jrel" else T["hasjabs"][0] if second == "jabs" else T["hasconst"][0]
            op0 = T["hasname"][0]
            # instruction 0: one unit at offset 0; instruction 1: n_args units
            off1, nxt1 = 2, 2 + 2 * n_args
            arg0, arg1 = ctx.input("arg0", SymInt.fresh("arg0")), ctx.input("arg1", SymInt.fresh("arg1"))
            ns["_parse_bytes"] = lambda b: (log.append(("_parse_bytes", b)), iter([(op0, arg0, 1, 0, 2), (opj, arg1, n_args, off1, nxt1)]))[1]

            def to_arg(opcode, arg, next_offset, *tables):
                log.append(("to_arg", opcode, arg, next_offset, tables, dict(tables[1]._index_to_order), dict(tables[4]._index_to_order)))
                if opcode == opj and second != "const":
                    return Jump(0, second == "jrel")        # contract stub: a decoded jump to offset 0
                return ("ARG", opcode, arg)
            ns["to_arg"] = to_arg
            doc = {"module": None, "fn-doc": "the doc", "fn-emptydoc": "", "fn-nodoc": None}[kind]
            tp = None if kind == "module" else Function(Args(("p",), ("a",), "rest", ("k",), "kw"), doc)
            args = tp.args if tp else Args()
            consts = (doc if doc is not None else None, 1)
            lines = {0: 10, 2: 11}
            for o in range(4, nxt1, 2):
                lines[o] = 11
            lm = L.LineMapping(dict(lines), {2: [0, 5]})
            names, varnames, freevars, cellvars = ("n0",), ("p", "a", "k", "rest", "kw", "loc"), ("fv",), ("cv",)
            blocks, additional = ns["bytes_to_blocks"]("CODE-BYTES", lm, names, varnames, freevars, cellvars, consts, tp, args)
            calls = [e for e in log if e[0] == "to_arg"]
            ctx.prove("glue._parse_bytes_receives_co_code", z3.BoolVal(log[0] == ("_parse_bytes", "CODE-BYTES")))
            ctx.prove("glue.to_arg_called_once_per_instruction", z3.BoolVal(len(calls) == 2))
            for (_, opcode, arg, next_offset, tables, _v, _c), (wop, warg, wnext) in zip(calls, ((op0, arg0, 2), (opj, arg1, nxt1))):
                ctx.prove("glue.to_arg_receives(opcode, arg, next_offset)", z3.BoolVal(opcode == wop and arg is warg and next_offset == wnext),
                          detail="next_offset %r, the offset after the whole instruction is %r" % (next_offset, wnext))
                ctx.prove("glue.to_arg_receives_the_tables_in_order(names, varnames, freevars, cellvars, constants)",
                          z3.BoolVal(tables[0]._args is names and tables[1]._args is varnames and tables[2] is freevars and tables[3]._args is cellvars and tables[4]._args is consts))
            seeded_vars, seeded_consts = calls[0][5], calls[0][6]       # snapshots taken when the first instruction was decoded
            ctx.prove("seed.parameters_count_as_found_in_order", z3.BoolVal(seeded_vars == ({i: i for i in range(5)} if tp else {})), detail=repr(seeded_vars))
            from code_data._constants import constant_key as _ck
            ctx.prove("seed.constants_are_identified_by_the_encoder's_key_function", z3.BoolVal(calls[0][4][4]._hash_fn is _ck))
            ctx.prove("seed.docstring_slot_counts_as_found_iff_there_is_a_docstring(incl. the empty string)",
                      z3.BoolVal((0 in seeded_consts) == (doc is not None)), detail="docstring %r, found %r" % (doc, seeded_consts))
            flat = [i for b in blocks for i in b]
            ctx.prove("post.one_instruction_per_parsed_tuple_in_order", z3.BoolVal(len(flat) == 2 and flat[0].name == T["opname"][op0] and flat[1].name == T["opname"][opj]))
            ctx.prove("post.line_number_is_the_line_of_the_first_unit", z3.BoolVal(flat[0].line_number == 10 and flat[1].line_number == 11))
            ctx.prove("post.extra_line_entries_attached_to_their_instruction", z3.BoolVal(flat[1]._line_offsets_override == (0, 5) and flat[0]._line_offsets_override == ()))
            ctx.prove("post.private_fields_of_decoded_instructions_are_immutable_values(C08: hashable, no state shared with the line mapping)",
                      z3.BoolVal(all(type(i._line_offsets_override) is tuple and (i._n_args_override is None or type(i._n_args_override) is int) for i in flat)),
                      detail=repr([type(i._line_offsets_override).__name__ for i in flat]))
            ctx.prove("post.line_mapping_consumed_for_every_unit_of_every_instruction", z3.BoolVal(lm.offset_to_line == {} and lm.offset_to_additional_line_offsets == {}))
            if second != "const":
                ctx.prove("post.n_args_recorded_only_for_jumps_with_prefixes", z3.BoolVal(flat[1]._n_args_override == (n_args if n_args > 1 else None) and flat[0]._n_args_override is None))
                ctx.prove("post.jump_designates_the_block_starting_at_its_target", z3.BoolVal(flat[1].arg == Jump(0, second == "jrel") and len(blocks) == 1))
            else:
                ctx.prove("post.n_args_not_recorded_for_non_jumps", z3.BoolVal(flat[1]._n_args_override is None and flat[1].arg == ("ARG", opj, arg1)))
            unfound_names = 1
            ctx.prove("post.additional_args_list_every_table_entry_no_instruction_used", z3.BoolVal(
                [type(a).__name__ for a in additional] == ["Name"] * 1 + ["Varname"] * (1 if tp else 6) + ["Cellvar"] + ["Constant"] * (1 if doc is not None else 2)),
                detail=repr(additional))
        harness("blocks.bytes_to_blocks.call_sites[%s,units=%d,%s]" % (kind, n_args, second), props=["C02", "C13", "C09", "C01", "C10", "C08"],
                functions=["code_data._blocks.bytes_to_blocks"], configs="all",
                assumes=["callee contracts: _parse_bytes, to_arg (discharged on the real callees)"],
                notes="modular: _parse_bytes and to_arg are stubs carrying their contracts; the caller passes opcode/arg/next_offset and the five tables in order, seeds parameters and the "
                      "docstring slot as found, takes each instruction's line from its first code unit and consumes the line mapping of every unit")(h)


_register_decode_glue()


def _register_encode_glue():
    for kind in ("module", "fn-doc", "fn-emptydoc", "fn-nodoc"):
        def h(ctx, cfg, kind=kind):
            f = B.blocks_to_bytes
            rewrite.Source.of(B).get_def("blocks_to_bytes")
            T = cfg.tables
            doc = {"module": None, "fn-doc": "the doc", "fn-emptydoc": "", "fn-nodoc": None}[kind]
            tp = None if kind == "module" else Function(Args(("p",), ("a",), "rest", ("k",), "kw"), doc)
            opn = lambda cls: T["opname"][T[cls][0]]
            body = (Instruction(opn("hasconst"), Constant(5), line_number=3), Instruction(opn("hasname"), Name("nm"), line_number=3),
                    Instruction(opn("haslocal"), Varname("loc"), line_number=4), Instruction(opn("hasfree"), Cellvar("cell"), line_number=4),
                    Instruction(opn("hasfree"), Freevar("fv"), line_number=5), Instruction("RETURN_VALUE", line_number=5))
            code, lm, names, varnames, cellvars, constants = f((body,), (), ("fv",), tp)
            # an unreferenced cell variable (kept as an additional arg) still shifts the free-variable operands
            code2, _, _, _, cellvars2, _ = f((body,), (Cellvar("unused_cell", 1),), ("fv",), tp)
            units2 = [(code2[i], code2[i + 1]) for i in range(0, len(code2), 2)]
            ctx.prove("post.free_variable_operand_counts_unreferenced_cells_too", z3.BoolVal(cellvars2 == ("cell", "unused_cell") and units2[4][1] == 2 and units2[3][1] == 0), detail=repr((cellvars2, units2[3:5])))
            # a name that is a cell AND a free variable of the same code object (a class body that reads the enclosing __class__ while its own methods close over theirs):
            # the two operands stay distinct - Cellvar indexes the cells, Freevar indexes after them
            both = (Instruction(opn("hasfree"), Cellvar("__class__"), line_number=1), Instruction(opn("hasfree"), Freevar("__class__"), line_number=1), Instruction(opn("hasfree"), Cellvar("other"), line_number=1),
                    Instruction(opn("hasfree"), Freevar("outer"), line_number=1), Instruction("RETURN_VALUE", line_number=1))
            code4, _, _, _, cellvars4, _ = f((both,), (), ("__class__", "outer"), tp)
            u4 = [code4[i + 1] for i in range(0, len(code4), 2)]
            ctx.prove("post.a_name_that_is_both_cell_and_free_keeps_two_distinct_operands", z3.BoolVal(cellvars4 == ("__class__", "other") and u4[:4] == [0, 2, 1, 3]), detail=repr((cellvars4, u4)))
            if tp:
                ctx.prove("post.co_varnames_starts_with_the_parameters_in_CPython_layout(positional, keyword-only, *args, **kwargs)",
                          z3.BoolVal(varnames[:5] == ("p", "a", "k", "rest", "kw") and varnames[5:] == ("loc",)), detail=repr(varnames))
            else:
                ctx.prove("post.co_varnames_is_first_use_order", z3.BoolVal(varnames == ("loc",)))
            if doc is not None:
                ctx.prove("post.docstring_is_pinned_at_constant_0(incl. the empty string)", z3.BoolVal(constants[0] == doc and isinstance(constants[0], str) and constants[1:] == (5,)), detail=repr(constants))
            else:
                ctx.prove("post.constants_in_first_use_order", z3.BoolVal(constants == (5,)), detail=repr(constants))
            ctx.prove("post.names_and_cellvars_in_first_use_order", z3.BoolVal(names == ("nm",) and cellvars == ("cell",)))
            ext = T["EXTENDED_ARG"]
            units = [(code[i], code[i + 1]) for i in range(0, len(code), 2)]
            ctx.prove("post.one_unit_per_instruction_without_prefixes", z3.BoolVal(len(units) == 6 and all(u[0] != ext for u in units)))
            ctx.prove("post.free_variable_operand_is_index_after_the_cells", z3.BoolVal(units[4][1] == len(cellvars) + 0 and units[3][1] == 0))
            ctx.prove("post.line_of_every_unit_recorded", z3.BoolVal(lm.offset_to_line == {0: 3, 2: 3, 4: 4, 6: 4, 8: 5, 10: 5}))
            # an instruction with EXTENDED_ARG prefixes as the LAST instruction: every one of its code units, the opcode's included, has its line
            wide = (Instruction(opn("hasconst"), Constant(1), line_number=7), Instruction("CALL_FUNCTION" if "CALL_FUNCTION" in T["opmap"] else opn("hasname"), 70000, line_number=9))
            code3, lm3, _, _, _, _ = f((wide,), (), (), None)
            wide_op = T["opmap"]["CALL_FUNCTION" if "CALL_FUNCTION" in T["opmap"] else opn("hasname")]
            ctx.prove("post.prefix_bytes_of_a_three_unit_operand_are_emitted_most_significant_first(70000 = 0x01 0x11 0x70)",
                      z3.BoolVal(list(code3[2:]) == [ext, 0x01, ext, 0x11, wide_op, 0x70]), detail=repr(list(code3)))
            four = (Instruction("CALL_FUNCTION" if "CALL_FUNCTION" in T["opmap"] else opn("hasname"), 0x12345678, line_number=1),)
            code4b = f((four,), (), (), None)[0]
            ctx.prove("post.prefix_bytes_of_a_four_unit_operand_are_emitted_most_significant_first", z3.BoolVal(list(code4b) == [ext, 0x12, ext, 0x34, ext, 0x56, wide_op, 0x78]), detail=repr(list(code4b)))
            ctx.prove("post.every_unit_of_a_prefixed_last_instruction_has_its_line(C10: table covers the whole code)",
                      z3.BoolVal(len(code3) == 8 and lm3.offset_to_line == {0: 7, 2: 9, 4: 9, 6: 9}), detail=repr((len(code3), lm3.offset_to_line)))
        harness("blocks.blocks_to_bytes.table_seeding[%s]" % kind, props=["C01", "C03", "C05", "C04", "C10", "C06"], functions=["code_data._blocks.blocks_to_bytes", "code_data._args.args_to_varnames"],
                configs="all", engine="E2",
                notes="bounded (one concrete six-instruction block per code kind): the encoder seeds co_varnames with the parameters in CPython's layout and pins the docstring - also an "
                      "empty one - at constant 0; free variables index after the cells; every unit gets its line")(h)


_register_encode_glue()


def _register_jump_graph():
    for kinds in itertools.product(["jabs", "jrel"], repeat=2):
        def h(ctx, cfg, kinds=kinds):
            ns = b2b_ns()
            T = cfg.tables
            ops = {"jabs": T["hasjabs"][0], "jrel": T["hasjrel"][0]}
            nop = T["opmap"]["NOP"]
            # offsets: i0 @0 jumps to @6 (i2); i1 @2 is a non-jump with one EXTENDED_ARG prefix (2 units); i2 @6 plain; i3 @8 jumps to @0; i4 @10 plain
            seq = [(ops[kinds[0]], 0, 1, 0, 2), (nop, 300, 2, 2, 6), (nop, 0, 1, 6, 8), (ops[kinds[1]], 0, 1, 8, 10), (nop, 0, 1, 10, 12)]
            ns["_parse_bytes"] = lambda b: iter(seq)
            tgt = {0: 6, 8: 0}

            def to_arg(opcode, arg, next_offset, *tables):
                off = next_offset - 2
                if off in tgt:
                    return Jump(tgt[off], opcode == ops["jrel"])
                return NoArg(arg)
            ns["to_arg"] = to_arg
            lm = L.LineMapping({o: 1 for o in range(0, 12, 2)}, {})
            blocks, additional = ns["bytes_to_blocks"]("CODE", lm, (), (), (), (), (), None, Args())
            ctx.prove("post.blocks_are_the_jump_target_partition[{0,6} -> two blocks]", z3.BoolVal([len(b) for b in blocks] == [2, 3]), detail=repr([len(b) for b in blocks]))
            ctx.prove("post.forward_jump_designates_the_block_that_starts_at_its_target", z3.BoolVal(len(blocks) == 2 and blocks[0][0].arg.target == 1))
            ctx.prove("post.jump_to_offset_0_designates_block_0", z3.BoolVal(len(blocks) == 2 and blocks[1][1].arg.target == 0))
            ctx.prove("post.every_jump_target_is_an_existing_block", z3.BoolVal(all(0 <= i.arg.target < len(blocks) for b in blocks for i in b if isinstance(i.arg, Jump))))
            # the jump target is itself an instruction with EXTENDED_ARG prefixes: it starts (and its block opens) at its FIRST code unit
            seq2 = [(ops[kinds[0]], 0, 1, 0, 2), (nop, 70000, 3, 2, 8), (ops[kinds[1]], 0, 1, 8, 10), (nop, 0, 1, 10, 12)]
            seq[:] = seq2
            tgt.clear(); tgt.update({0: 2, 8: 2})
            lm2 = L.LineMapping({o: 1 for o in range(0, 12, 2)}, {})
            blocks2, _ = ns["bytes_to_blocks"]("CODE", lm2, (), (), (), (), (), None, Args())
            ctx.prove("post.a_prefixed_instruction_that_is_jumped_to_opens_a_block_at_its_first_unit", z3.BoolVal([len(b) for b in blocks2] == [1, 3] and blocks2[0][0].arg.target == 1 and
                      blocks2[1][1].arg.target == 1 and blocks2[1][0].name == "NOP"), detail=repr(blocks2))
            # a jump with a (possibly redundant) prefix keeps its width whatever it jumps to: here the target lies beyond offset 65535
            seq[:] = [(nop, 0, 1, 0, 2), (ops[kinds[0]], 1, 2, 2, 6), (nop, 0, 1, 6, 8), (nop, 0, 1, 70000, 70002)]
            tgt.clear(); tgt.update({4: 70000})
            lm3 = L.LineMapping({o: 1 for o in (0, 2, 4, 6, 70000)}, {})
            blocks3, _ = ns["bytes_to_blocks"]("CODE", lm3, (), (), (), (), (), None, Args())
            flat3 = [i for b in blocks3 for i in b]
            ctx.prove("post.the_width_of_a_prefixed_jump_is_recorded_whatever_its_target(C01: redundant EXTENDED_ARG 0 prefixes)", z3.BoolVal(len(flat3) == 4 and flat3[1]._n_args_override == 2 and
                      [len(b) for b in blocks3] == [3, 1] and flat3[1].arg.target == 1), detail=repr(blocks3))
        harness("blocks.bytes_to_blocks.jump_graph[%s,%s]" % kinds, props=["C13", "C02", "C01"], functions=["code_data._blocks.bytes_to_blocks"], configs="all", engine="E2",
                notes="bounded: the real function on a five-instruction sequence (stubbed _parse_bytes/to_arg) with a forward jump and a jump to offset 0: blocks open exactly at {0} and the targets, "
                      "jumps are rewritten to the index of the block that starts at their target")(h)


_register_jump_graph()


@harness("blocks.bytes_to_blocks.every_jump_opcode_opens_exactly_its_target", props=["C13", "C02"], functions=["code_data._blocks.bytes_to_blocks"], configs="all", engine="E2",
         notes="bounded: for every opcode the interpreter lists in hasjabs/hasjrel (CALL_FINALLY, SETUP_*, FOR_ITER, JUMP_IF_NOT_EXC_MATCH ... included), a three-instruction sequence whose "
               "first instruction is that jump to the third: blocks open at {0} and at the target only - the instruction after a jump is not a block start unless something jumps to it")
def h_every_jump_opcode(ctx, cfg):
    ns = b2b_ns()
    T = cfg.tables
    nop = T["opmap"]["NOP"]
    for op in sorted(set(T["hasjabs"]) | set(T["hasjrel"])):
        rel = op in T["hasjrel"]
        seq = [(op, 0, 1, 0, 2), (nop, 0, 1, 2, 4), (nop, 0, 1, 4, 6)]
        ns["_parse_bytes"] = lambda b, seq=seq: iter(seq)
        ns["to_arg"] = lambda opcode, arg, next_offset, *tables, op=op, rel=rel: Jump(4, rel) if opcode == op else NoArg(arg)
        lm = L.LineMapping({0: 1, 2: 1, 4: 1}, {})
        blocks, _ = ns["bytes_to_blocks"]("CODE", lm, (), (), (), (), (), None, Args())
        ctx.prove("post.blocks_open_at_0_and_at_the_target_only[%s]" % T["opname"][op], z3.BoolVal([len(b) for b in blocks] == [2, 1] and blocks[0][0].arg == Jump(1, rel)), detail=repr(blocks))


# --------------------------------------------------------------------------------------------------
# The relaxation (fix-point) loop of blocks_to_bytes on jump graphs of bounded *shape* but unbounded *distances*:
# a run of k NOPs is one pseudo-instruction whose width override is the symbolic k.

def relax_fragment():
    def build():
        import ast
        src = rewrite.Source.of(B)
        fn = src.get_def("blocks_to_bytes")
        loop = rewrite.find_stmt(fn, lambda n, t: isinstance(n, ast.While) and ast.unparse(n.test) == "changed_instruction_lengths", "while changed_instruction_lengths: [relaxation loop]")
        ret = ast.parse("return (args, block_index_to_instruction_offset)").body[0]
        pre = ast.parse("changed_instruction_lengths = True").body[0]
        frag = rewrite.make_function("relax_fragment", ["blocks", "args", "block_index_to_instruction_offset", "block_type", "freevars", "names", "varnames", "cellvars", "constants"],
                                     [loop, ret], B.__name__, "blocks_to_bytes", "the `while changed_instruction_lengths` loop; free variables become parameters")
        frag.body.insert(0, pre)
        import ast as _a
        _a.copy_location(pre, loop)
        for n in _a.walk(pre):
            if hasattr(n, "lineno"):
                n.lineno = n.end_lineno = loop.lineno
        return frag
    return cached("relax_fragment", build)


def _register_relax():
    shapes = {
        "back+fwd-abs": [[("pad", 0), ("jump", 1, False)], [("pad", 1), ("jump", 0, False)], [("pad", 2)]],
        "fwd-rel+back-abs": [[("pad", 0), ("jump", 2, True)], [("pad", 1), ("jump", 0, False)], [("pad", 2)]],
        "two-fwd": [[("jump", 2, False), ("pad", 0), ("jump", 1, True)], [("pad", 1)], [("pad", 2)]],
        "loop-in-if": [[("jump", 2, False), ("pad", 0)], [("pad", 1), ("jump", 1, False), ("jump", 2, True)], [("pad", 2)]],
    }
    for name, shape in shapes.items():
        def h(ctx, cfg, name=name, shape=shape):
            import copy as _copy
            frag = relax_fragment()
            ns = rewrite.compile_defs(B, [_copy.deepcopy(frag)], {}, "blocks_to_bytes:relaxation")
            pads = [ctx.input("pad%d" % k, SymInt.fresh("pad%d" % k)) for k in range(3)]
            for p_ in pads:
                ctx.assume(z3.And(p_.z >= 1, p_.z <= 2 ** 24), "pre: at least one padding unit; code size within a C int")
            blocks, args = [], {}
            for bi, b in enumerate(shape):
                row = []
                for ii, it in enumerate(b):
                    if it[0] == "pad":
                        row.append(Instruction("NOP", NoArg(), _n_args_override=pads[it[1]]))
                        args[bi, ii] = 0
                    else:
                        row.append(Instruction("JUMP", Jump(it[1], it[2])))
                        args[bi, ii] = 1            # from_arg's contract for a Jump
                blocks.append(tuple(row))
            out_args, offs = ns["relax_fragment"](tuple(blocks), args, {}, None, (), None, None, None, None)
            size = B._instrsize
            mult = 1 if cfg.atleast_310 else 2
            # recompute the layout from the final operands
            cur, first, ends = 0, {}, {}
            for bi, b in enumerate(blocks):
                first[bi] = cur
                for ii, ins in enumerate(b):
                    n = ins._n_args_override if ins._n_args_override is not None else size(out_args[bi, ii])
                    cur = cur + n
                    ends[bi, ii] = cur
            for bi, b in enumerate(blocks):
                ctx.prove("post.recorded_block_offset_is_the_final_layout", Z(offs[bi]) == Z(first[bi]))
                for ii, ins in enumerate(b):
                    if isinstance(ins.arg, Jump):
                        a = out_args[bi, ii]
                        want = (Z(first[ins.arg.target]) - Z(ends[bi, ii])) * mult if ins.arg.relative else Z(first[ins.arg.target]) * mult
                        ctx.prove("post.jump_operand_matches_the_final_layout(fix-point reached)", Z(a) == want)
                        ctx.prove("post.jump_operand_non_negative", Z(a) >= 0)
        harness("blocks.relaxation_loop.fixpoint[%s]" % name, props=["C03", "C05", "C06", "C01"], functions=["code_data._blocks.blocks_to_bytes", "code_data._blocks._instrsize"], configs="all",
                engine="E2", cost=20,
                notes="bounded shape (three blocks, the jumps of shape `%s`), UNBOUNDED distances: every run of NOPs is a pseudo-instruction of symbolic width 1..2^24. On every path the real loop "
                      "terminates and every jump operand equals the operand implied by the final layout for the width it is emitted with" % name)(h)


_register_relax()


@harness("blocks.tables_roundtrip[key-duplicate constants]", props=["C01", "C09"], functions=["code_data._blocks.bytes_to_blocks", "code_data._blocks.blocks_to_bytes"], configs="all", engine="E2",
         notes="bounded: the real decoder and encoder on tables holding key-duplicate constants (two distinct NaN objects, two equal tuples, 0.0/-0.0 which are NOT duplicates): the constant "
               "table and the operands are reproduced exactly, whatever builtin hash() does with NaN on the host")
def h_dups(ctx, cfg):
    ns = b2b_ns()
    T = cfg.tables
    ld = T["hasconst"][0]
    nan1, nan2 = float("nan"), float("nan")
    for consts, loads in ([(nan1, nan2, None), [0, 1, 0, 1, 2]], [((1, 2), (1, 2), 0.0, -0.0), [0, 1, 2, 3]], [(nan1, (nan2,), (nan1,)), [2, 1, 0]], [(1, True, 1.0, nan1, nan2), [4, 3, 2, 1, 0]]):
        seq = [(ld, a, 1, 2 * i, 2 * i + 2) for i, a in enumerate(loads)]
        ns["_parse_bytes"] = lambda b, seq=seq: iter(seq)
        ns["to_arg"] = B.to_arg
        lm = L.LineMapping({2 * i: 1 for i in range(len(loads))}, {})
        blocks, additional = ns["bytes_to_blocks"]("CODE", lm, (), (), (), (), consts, None, Args())
        code, lm2, names, varnames, cellvars, constants = B.blocks_to_bytes(blocks, additional, (), None)
        ops = [code[i + 1] for i in range(0, len(code), 2)]
        same = len(constants) == len(consts) and all(type(a) is type(b) and (a == b or repr(a) == repr(b)) for a, b in zip(constants, consts))
        ctx.prove("tables.constants_reproduced_entry_for_entry", z3.BoolVal(same), detail="%r -> %r" % (consts, constants))
        ctx.prove("tables.operands_reproduced", z3.BoolVal(ops == loads), detail="%r -> %r" % (loads, ops))
