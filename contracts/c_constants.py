"""Contracts for code_data/_constants.py and Constant.__eq__/__hash__ (C08, C03, C01).

Spec: CPython's `_PyCode_ConstantKey` partition (Objects/codeobject.c): constants are the same table entry iff they have the same
type and the same value *bits* (0.0 / -0.0 distinct, 1 / True / 1.0 distinct, str / bytes distinct, recursively in tuples and
frozensets) - here with all NaNs identified, as the property states.
"""
from __future__ import annotations

import itertools

import z3

import code_data
import code_data._constants as C
from code_data import CodeData, Constant, Instruction

from pcv import rewrite
from pcv.core import Ctx, SymBool, SymFloat, SymInt, Unsupported, fp_same_bits_mod_nan
from pcv.registry import harness
from .util import Z, cached


class SymFloatStr:
    """str(float): only comparison with the literal '-0.0' is modelled (assumed: str(x) == '-0.0' iff x is negative zero)."""

    def __init__(self, f):
        self.f = f

    def __eq__(s, o):
        if isinstance(o, str) and o == "-0.0":
            return SymBool(z3.And(z3.fpIsZero(s.f.z), z3.fpIsNegative(s.f.z)))
        raise Unsupported("str(float) compared with %r" % (o,))

    def __hash__(s):
        raise Unsupported("hash of str(float)")


class SymComplex:
    def __init__(s, re, im):
        s.real, s.imag = re, im


def h_isinstance(x, t):
    ts = t if isinstance(t, tuple) else (t,)
    if isinstance(x, SymFloat):
        return any(isinstance(k, type) and issubclass(float, k) for k in ts)
    if isinstance(x, SymComplex):
        return any(isinstance(k, type) and issubclass(complex, k) for k in ts)
    if isinstance(x, SymInt):
        return any(isinstance(k, type) and issubclass(int, k) and k is not bool for k in ts)
    return isinstance(x, t)


def h_type(x):
    return float if isinstance(x, SymFloat) else complex if isinstance(x, SymComplex) else int if isinstance(x, SymInt) else type(x)


def h_str(x):
    return SymFloatStr(x) if isinstance(x, SymFloat) else str(x)


def h_isnan(x):
    import math
    return bool(SymBool(z3.fpIsNaN(x.z))) if isinstance(x, SymFloat) else math.isnan(x)


def h_copysign(m, x):
    import math
    if isinstance(x, SymFloat) and isinstance(m, (int, float)):
        mag = abs(float(m))
        return SymFloat(z3.If(x.sign_bit(), z3.FPVal(-mag, z3.Float64()), z3.FPVal(mag, z3.Float64())))
    return math.copysign(m, x)


def h_signbit_str(x):
    return h_str(x)


HOOKS = {"isinstance": h_isinstance, "type": h_type, "str": h_str, "isnan": h_isnan, "copysign": h_copysign}
FUNCS = ["constant_key", "inner_constant_key", "is_neg_zero", "replace_nan"]


def const_ns():
    return cached("_constants", lambda: rewrite.load(C, FUNCS, hooks=HOOKS, tag="_constants"))


def key_eq(k1, k2):
    return bool(k1 == k2)


def _floats(ctx, names):
    return [ctx.input(n, SymFloat.fresh(n)) for n in names]


@harness("constants.constant_key.float_partition", props=["C08", "C03", "C05", "C06", "C01"], functions=["code_data._constants." + f for f in FUNCS], configs="any",
         assumes=["str(x) == '-0.0' iff x is negative zero (validated by E3)"],
         notes="all pairs of binary64 values: keys are equal iff the values are bit-equal, with all NaNs identified")
def h_float(ctx, cfg):
    ck = const_ns()["constant_key"]
    a, b = _floats(ctx, ["a", "b"])
    eq = key_eq(ck(a), ck(b))
    spec = fp_same_bits_mod_nan(a.z, b.z)
    ctx.prove("post.key_equality_is_bit_equality_modulo_nan", spec if eq else z3.Not(spec))


@harness("constants.constant_key.complex_partition", props=["C08", "C03", "C05", "C06", "C01"], functions=["code_data._constants." + f for f in FUNCS], configs="any",
         notes="all pairs of complex values (two binary64 parts each)")
def h_complex(ctx, cfg):
    ck = const_ns()["constant_key"]
    ar, ai, br, bi = _floats(ctx, ["a_re", "a_im", "b_re", "b_im"])
    eq = key_eq(ck(SymComplex(ar, ai)), ck(SymComplex(br, bi)))
    spec = z3.And(fp_same_bits_mod_nan(ar.z, br.z), fp_same_bits_mod_nan(ai.z, bi.z))
    ctx.prove("post.key_equality_is_partwise_bit_equality_modulo_nan", spec if eq else z3.Not(spec))


@harness("constants.constant_key.int_partition", props=["C08", "C03", "C05", "C06", "C01"], functions=["code_data._constants.inner_constant_key"], configs="any",
         notes="all pairs of ints: keys equal iff the ints are equal; an int key never equals a bool or float key")
def h_int(ctx, cfg):
    ck = const_ns()["constant_key"]
    a, b = ctx.input("a", SymInt.fresh("a")), ctx.input("b", SymInt.fresh("b"))
    eq = key_eq(ck(a), ck(b))
    ctx.prove("post.int_keys_equal_iff_equal", (a.z == b.z) if eq else (a.z != b.z))
    for other in (True, False, None, "1", b"1", Ellipsis, (), frozenset()):
        ctx.prove("post.int_key_differs_from_%s" % type(other).__name__, z3.BoolVal(not key_eq(ck(a), ck(other))))
    f = SymFloat.fresh("f")
    ctx.prove("post.int_key_differs_from_float_key", z3.BoolVal(not key_eq(ck(a), ck(f))))


def _register_containers():
    for n in (1, 2):
        def h(ctx, cfg, n=n):
            ck = const_ns()["constant_key"]
            xs = _floats(ctx, ["x%d" % i for i in range(n)])
            ys = _floats(ctx, ["y%d" % i for i in range(n)])
            eq = key_eq(ck(tuple(xs)), ck(tuple(ys)))
            spec = z3.And(*[fp_same_bits_mod_nan(x.z, y.z) for x, y in zip(xs, ys)])
            ctx.prove("post.tuple_keys_equal_iff_elementwise", spec if eq else z3.Not(spec))
            if n == 1:
                ctx.prove("post.tuple_key_differs_from_bare_key", z3.BoolVal(not key_eq(ck(tuple(xs)), ck(xs[0]))))
        harness("constants.constant_key.tuple_of_floats[len=%d]" % n, props=["C08", "C03", "C05", "C06", "C01"], functions=["code_data._constants.inner_constant_key"], configs="any", engine="E2",
                notes="bounded: tuples of %d symbolic floats (the element case is the unbounded float obligation; induction over length is the meta-step)" % n)(h)


_register_containers()


@harness("constants.constant_key.cross_constructor", props=["C08", "C03", "C05", "C06", "C01"], functions=["code_data._constants.constant_key"], configs="any",
         notes="representatives of every constructor and nesting: key equality coincides with (same type and same repr), i.e. CPython-distinct constants stay distinct (finite check)")
def h_cross(ctx, cfg):
    ck = C.constant_key
    rewrite.Source.of(C).get_def("constant_key")
    nan = float("nan")
    reps = [None, ..., True, False, 0, 1, -1, 0.0, -0.0, 1.0, nan, float("inf"), 0j, complex(0.0, -0.0), complex(-0.0, 0.0), 1j, complex(1, 0), "a", b"a", "", b"", "nan",
            (), frozenset(), (1,), (True,), (1.0,), (0.0,), (-0.0,), ("a",), (b"a",), frozenset([1]), frozenset([True]), frozenset([1.0]), ((1,),), ((True,),), (nan,), ("nan",), ("nan", 0.0, False)]
    bad = []
    for x, y in itertools.combinations(reps, 2):
        want = type(x) is type(y) and repr(x) == repr(y)
        if (ck(x) == ck(y)) != want:
            bad.append((x, y))
    ctx.prove("post.distinct_constants_have_distinct_keys", z3.BoolVal(not bad), detail=repr(bad[:4]))
    ctx.prove("post.nan_objects_share_one_key", z3.BoolVal(ck(float("nan")) == ck(float("nan")) and ck((float("nan"),)) == ck((nan,))))


@harness("constants.constant_key.code_data_is_its_own_key", props=["C08", "C03", "C05"], functions=["code_data._constants.constant_key"], configs="any",
         notes="a nested CodeData constant is keyed by its full value, so two nested code objects share a table entry iff they are equal CodeData")
def h_cd(ctx, cfg):
    ck = C.constant_key
    rewrite.Source.of(C).get_def("constant_key")
    a = CodeData(blocks=((Instruction("A", line_number=1),),), filename="f", first_line_number=1, name="<lambda>", stacksize=1)
    b = CodeData(blocks=((Instruction("B", line_number=1),),), filename="f", first_line_number=1, name="<lambda>", stacksize=1)
    ctx.prove("post.key_is_the_value", z3.BoolVal(ck(a) is a))
    ctx.prove("post.different_code_same_name_and_line_have_different_keys", z3.BoolVal(ck(a) != ck(b)))


# ------------------------------------------------------------------ Constant.__eq__ / __hash__
def constant_cls(hash_log):
    """Constant re-read from source with `hash` routed to a recorder; constant_key inside it is the hooked one."""
    def h_hash(x):
        hash_log.append(x)
        return 0
    ns = rewrite.load(code_data, ["Constant"], hooks={"hash": h_hash, "isinstance": lambda x, t: isinstance(x, t)}, tag="Constant")
    return ns["Constant"]


def _register_eq():
    for case in ("float", "int"):
        def h(ctx, cfg, case=case):
            log = []
            K = constant_cls(log)
            hooked = const_ns()["constant_key"]
            saved = C.constant_key
            C.constant_key = hooked        # `from ._constants import constant_key` inside the methods resolves to the hooked copy
            try:
                mk = (lambda n: ctx.input(n, SymFloat.fresh(n))) if case == "float" else (lambda n: ctx.input(n, SymInt.fresh(n)))
                va, vb = mk("a"), mk("b")
                oa = ctx.input("override_a", SymInt.fresh("ova")) if ctx.decide(z3.Bool("a_has_override")) else None
                ob = ctx.input("override_b", SymInt.fresh("ovb")) if ctx.decide(z3.Bool("b_has_override")) else None
                x, y = K(va, oa), K(vb, ob)
                eq = bool(x.__eq__(y))
                same_val = fp_same_bits_mod_nan(va.z, vb.z) if case == "float" else (va.z == vb.z)
                same_ov = z3.BoolVal(oa is None and ob is None) if (oa is None or ob is None) else (oa.z == ob.z)
                spec = z3.And(same_val, same_ov)
                ctx.prove("eq.iff_same_override_and_same_constant_key", spec if eq else z3.Not(spec))
                ctx.prove("eq.symmetric", z3.BoolVal(bool(y.__eq__(x)) == eq))
                # the very same constant object under two overrides (decoded vs normalized data share their constants)
                z = K(va, ob)
                ctx.prove("eq.same_constant_object_different_override_is_unequal", z3.BoolVal(bool(x.__eq__(z))) == (z3.BoolVal(oa is None and ob is None) if (oa is None or ob is None) else (oa.z == ob.z)))
                ctx.prove("eq.reflexive", z3.BoolVal(bool(x.__eq__(K(va, oa)))))
                # hash: computed from exactly the pair that __eq__ compares
                del log[:]
                x.__hash__(); y.__hash__()
                ctx.prove("hash.hashes_one_value", z3.BoolVal(len(log) == 2))
                hx, hy = log
                heq = bool(hx == hy)
                ctx.prove("hash.equal_values_hash_the_same_key(eq => hashed keys equal)", z3.BoolVal(heq) if eq else z3.BoolVal(True))
                ctx.prove("hash.hashed_key_has_no_nan_and_no_identity_dependence", z3.BoolVal(_no_symfloat_nan(hx)))
            finally:
                C.constant_key = saved
        harness("constants.Constant.eq_hash[%s]" % case, props=["C08"], functions=["code_data.Constant.__eq__", "code_data.Constant.__hash__", "code_data._constants.constant_key"],
                configs="any",
                assumes=["builtin hash() of tuples/str/bool/None/type objects/ints/non-NaN floats respects == (the hashed key never contains a NaN)"],
                notes="all pairs of %s constants with optional position overrides: == iff same override and same constant key; __hash__ hashes exactly that pair" % case)(h)


def _no_symfloat_nan(k):
    """the hashed key must not contain a float that may be NaN (it hashes by identity from 3.10): floats appear only behind replace_nan"""
    if isinstance(k, tuple):
        return all(_no_symfloat_nan(x) for x in k)
    if isinstance(k, SymFloat):
        return bool(SymBool(z3.Not(z3.fpIsNaN(k.z))))
    return True


_register_eq()


@harness("constants.Constant.eq.canary", props=["C08"], functions=["code_data.Constant.__eq__"], configs="any", expect="failed",
         notes="known-false: 0.0 and -0.0 are equal constants")
def h_canary(ctx, cfg):
    ck = const_ns()["constant_key"]
    a, b = _floats(ctx, ["a", "b"])
    ctx.assume(z3.fpEQ(a.z, b.z))
    ctx.prove("canary.fp_equal_implies_same_key", z3.BoolVal(key_eq(ck(a), ck(b))))
