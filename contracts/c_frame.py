"""Static contracts (no solver): frame conditions (C12), hidden state (C12), frozen value classes (C08), version independence of
the JSON codec and normalize (C15).  Each site is an obligation named by function and store expression (never by line number)."""
from __future__ import annotations

import ast
import glob
import os

import z3

from pcv import config, frame, rewrite
from pcv.registry import harness

PKG = lambda: os.path.join(config.REPO, "code_data")
LIB_FILES = ["__init__.py", "_args.py", "_blocks.py", "_code_data.py", "_constants.py", "_flags_data.py", "_json_data.py", "_line_mapping.py", "_normalize.py", "dataclass_hide_default.py"]


@harness("frame.store_sites", props=["C12"], functions=["code_data.%s.%s" % (f[:-3], n) for f, fns in frame.API.items() for n in fns], configs="any",
         assumes=["field annotations of the repo's dataclasses are trusted for immutability (int/str/bool/bytes/Optional[int]/tuple[str,...] load as immutable)",
                  "callee `modifies` summaries are the contracts listed in pcv/frame.py (each callee is itself checked against its own)",
                  "calls into other modules assumed to read their arguments only and to change no interpreter-wide state: " + ", ".join(sorted(frame.PURE_EXTERNALS))],
         notes="allocation/alias abstract interpretation of every function behind from_code, to_code, normalize, to_json_data, from_json_data: every store site "
               "writes to a container allocated in the same call or to a parameter the contract lists as modified; callers pass fresh actuals for those")
def h_store_sites(ctx, cfg):
    obs, missing = frame.run(config.REPO)
    ctx.prove("frame.every_contracted_function_is_present", z3.BoolVal(not missing), detail=repr(missing))
    if missing:
        raise rewrite.BindingError("functions under a frame contract are missing: %r" % missing)
    open_ = []
    for o in obs:
        name = "frame[%s].%s#%d" % (o["fn"], o["what"], o["ordinal"])
        if o.get("undecided"):
            open_.append("%s line %d (%s)" % (o["fn"], o["line"], o["what"]))
            continue
        ctx.prove(name, z3.BoolVal(bool(o["ok"])), detail="line %d target %s offending %s" % (o["line"], o.get("target"), o.get("offending")))
    if open_:
        from pcv.core import Unsupported
        raise Unsupported("frame pass: unknown provenance or no frame contract at %s" % "; ".join(open_[:6]))


CACHE_DECORATORS = {"lru_cache", "cache", "cached_property", "singledispatch", "memoize"}


def _module_trees():
    for f in LIB_FILES:
        p = os.path.join(PKG(), f)
        if os.path.exists(p):
            yield f, ast.parse(open(p, encoding="utf-8").read())


@harness("frame.no_hidden_state", props=["C12", "C14", "C02"], functions=["code_data (all library modules)"], configs="any", soft=True,
         notes="repeatability = determinism + empty frame: no function of the library is wrapped in a caching decorator, declares `global`, or "
               "stores into a module-level container; mutable default arguments are absent")
def h_hidden_state(ctx, cfg):
    for f, tree in _module_trees():
        module_names = {t.id for n in tree.body if isinstance(n, (ast.Assign, ast.AnnAssign)) for t in (n.targets if isinstance(n, ast.Assign) else [n.target]) if isinstance(t, ast.Name)}
        for node in ast.walk(tree):
            if isinstance(node, (ast.FunctionDef, ast.AsyncFunctionDef)):
                for d in node.decorator_list:
                    txt = ast.unparse(d)
                    bad = any(c in txt.replace("(", " ").replace(".", " ").split() for c in CACHE_DECORATORS)
                    ctx.prove("no_caching_decorator[%s:%s]" % (f, node.name), z3.BoolVal(not bad), detail=txt)
                if not node.decorator_list:
                    ctx.prove("no_caching_decorator[%s:%s]" % (f, node.name), z3.BoolVal(True))
                for dflt in node.args.defaults + [d for d in node.args.kw_defaults if d is not None]:
                    ctx.prove("no_mutable_default[%s:%s]" % (f, node.name), z3.BoolVal(not isinstance(dflt, (ast.List, ast.Dict, ast.Set, ast.ListComp, ast.DictComp, ast.SetComp))
                                                                                      and not (isinstance(dflt, ast.Call) and ast.unparse(dflt.func) in ("list", "dict", "set", "defaultdict"))))
                for sub in ast.walk(node):
                    if isinstance(sub, ast.Global):
                        ctx.prove("no_global_statement[%s:%s]" % (f, node.name), z3.BoolVal(False), detail=ast.unparse(sub))
                    tgt = None
                    if isinstance(sub, (ast.Subscript, ast.Attribute)) and isinstance(sub.ctx, (ast.Store, ast.Del)) and isinstance(sub.value, ast.Name):
                        tgt = sub.value.id
                    if isinstance(sub, ast.Call) and isinstance(sub.func, ast.Attribute) and sub.func.attr in frame.MUTATORS and isinstance(sub.func.value, ast.Name):
                        tgt = sub.func.value.id
                    if tgt and tgt in module_names:
                        local = any(isinstance(x, ast.Name) and x.id == tgt and isinstance(x.ctx, ast.Store) for x in ast.walk(node)) or tgt in [a.arg for a in node.args.args]
                        ctx.prove("no_store_to_module_state[%s:%s.%s]" % (f, node.name, tgt), z3.BoolVal(local))
        # calls of functools caches at module level: name = lru_cache(...)(fn)
        for n in tree.body:
            if isinstance(n, ast.Assign) and isinstance(n.value, ast.Call):
                txt = ast.unparse(n.value.func)
                ctx.prove("no_module_level_cache[%s:%s]" % (f, ast.unparse(n.targets[0])), z3.BoolVal(not any(c in txt for c in ("lru_cache", "functools.cache"))))
    ctx.reached("scanned")


IMMUTABLE_ANNOTATION_ATOMS = {"int", "str", "bool", "bytes", "float", "complex", "None", "Optional", "Tuple", "tuple", "FrozenSet", "frozenset", "Union", "Literal", "Blocks", "Arg", "TypeOfCode",
                              "AdditionalArgs", "AdditionalArg", "ConstantValue", "InnerConstant", "FunctionType", "Jump", "Name", "Varname", "Constant", "Freevar", "Cellvar", "NoArg", "Args", "Function",
                              "AdditionalLine", "CodeData", "Instruction", "Ellipsis", "..."}


@harness("frame.value_classes_are_frozen", props=["C08", "C14"], functions=["code_data (data classes)"], configs="any",
         notes="every data class of code_data/__init__.py is declared @dataclass(frozen=True) and every field annotation is built only from tuples, frozensets, "
               "scalars and other frozen data classes, so attributes cannot be reassigned and every value is hashable")
def h_frozen(ctx, cfg):
    tree = ast.parse(open(os.path.join(PKG(), "__init__.py"), encoding="utf-8").read())
    n = 0
    for cls in [c for c in tree.body if isinstance(c, ast.ClassDef)]:
        decs = [ast.unparse(d) for d in cls.decorator_list]
        if not any("dataclass" in d for d in decs):
            continue
        n += 1
        ctx.prove("frozen[%s]" % cls.name, z3.BoolVal(any("frozen=True" in d.replace(" ", "") for d in decs)), detail=repr(decs))
        ctx.prove("eq_not_disabled[%s]" % cls.name, z3.BoolVal(not any("eq=False" in d.replace(" ", "") for d in decs)))
        for st in cls.body:
            if isinstance(st, ast.AnnAssign) and isinstance(st.target, ast.Name):
                atoms = {x.id for x in ast.walk(st.annotation) if isinstance(x, ast.Name)} | {x.attr for x in ast.walk(st.annotation) if isinstance(x, ast.Attribute)}
                txt = ast.unparse(st.annotation)
                if isinstance(st.annotation, ast.Constant) and isinstance(st.annotation.value, str):
                    atoms = {x.id for x in ast.walk(ast.parse(st.annotation.value, mode="eval")) if isinstance(x, ast.Name)}
                bad = {a for a in atoms if a not in IMMUTABLE_ANNOTATION_ATOMS}
                ctx.prove("immutable_field_type[%s.%s]" % (cls.name, st.target.id), z3.BoolVal(not bad and not any(m in txt for m in ("List", "Dict", "Set[", "list[", "dict[", "set["))), detail=txt)
            if isinstance(st, ast.FunctionDef) and st.name in ("__setattr__", "__delattr__"):
                ctx.prove("no_setattr_override[%s]" % cls.name, z3.BoolVal(False))
    ctx.prove("data_classes_found", z3.BoolVal(n >= 10))


VERSION_DEPENDENT = {"sys", "dis", "opcode", "ctypes", "USE_LINETABLE", "_ATLEAST_310", "version_info", "HAVE_ARGUMENT", "platform"}


@harness("frame.json_and_normalize_are_version_independent", props=["C15"], functions=["code_data._json_data", "code_data._normalize", "code_data.dataclass_hide_default"],
         configs="any", soft=True,
         assumes=["behaviour of the standard library used by the closure (dataclasses, base64, ast.literal_eval, repr of str) does not change between versions (exercised by E3 on 3.7-3.13)"],
         notes="static reads-frame: the call-graph closure of to_json_data / from_json_data / normalize references no interpreter-dependent name "
               "(sys, dis, opcode, ctypes, USE_LINETABLE, _ATLEAST_310) and imports only the data classes")
def h_version_independent(ctx, cfg):
    allowed_imports = {"_json_data.py": {".", ".dataclass_hide_default", "ast", "base64", "copy", "dataclasses", "math", "typing", "__future__"},
                       "_normalize.py": {".", "dataclasses", "typing", "__future__"},
                       "dataclass_hide_default.py": {"dataclasses", "typing", "__future__", "rich"}}
    for f, allowed in allowed_imports.items():
        tree = ast.parse(open(os.path.join(PKG(), f), encoding="utf-8").read())
        for node in ast.walk(tree):
            if isinstance(node, ast.Import):
                for a in node.names:
                    ctx.prove("import_allowed[%s:%s]" % (f, a.name), z3.BoolVal(a.name.split(".")[0] in allowed))
            elif isinstance(node, ast.ImportFrom):
                mod = "." * node.level + (node.module or "")
                ctx.prove("import_allowed[%s:%s]" % (f, mod), z3.BoolVal(mod in allowed or mod.split(".")[0] in allowed), detail=mod)
            elif isinstance(node, ast.Name) and node.id in VERSION_DEPENDENT:
                ctx.prove("no_version_dependent_name[%s:%s]" % (f, node.id), z3.BoolVal(False))
            elif isinstance(node, ast.Attribute) and node.attr in VERSION_DEPENDENT:
                ctx.prove("no_version_dependent_name[%s:%s]" % (f, node.attr), z3.BoolVal(False))
        ctx.prove("scanned[%s]" % f, z3.BoolVal(True))
    # the methods of the data classes that the closure calls (to_json_data, from_json_data, normalize) only delegate
    tree = ast.parse(open(os.path.join(PKG(), "__init__.py"), encoding="utf-8").read())
    for node in ast.walk(tree):
        if isinstance(node, (ast.Name, ast.Attribute)):
            nm = node.id if isinstance(node, ast.Name) else node.attr
            if nm in VERSION_DEPENDENT:
                ctx.prove("no_version_dependent_name[__init__.py:%s]" % nm, z3.BoolVal(False))


@harness("frame.version_gates_do_not_influence_json_and_normalize", props=["C15"], functions=["code_data._json_data.value_to_json", "code_data._json_data.code_data_from_json", "code_data._normalize.normalize"],
         configs="all", engine="E2",
         notes="bounded (representative values of every data class, as in json.dataclass_positions): to_json_data, from_json_data and normalize give identical results when every "
               "version gate of the library (module-level booleans such as USE_LINETABLE / _ATLEAST_310) is flipped and sys.version_info is replaced by another supported version")
def h_gates(ctx, cfg):
    import importlib
    import json
    import sys
    import types as _t
    import code_data
    import code_data._json_data as J
    import code_data._normalize as N
    from .c_json import _instances
    mods = [m for name, m in sorted(sys.modules.items()) if name == "code_data" or name.startswith("code_data.")]
    gates = [(m, k) for m in mods for k, v in vars(m).items() if isinstance(v, bool) and (k.isupper() or k.startswith("_ATLEAST"))]
    ctx.prove("gates_found", z3.BoolVal(len(gates) >= 2), detail=repr([(m.__name__, k) for m, k in gates]))

    def run():
        nonlocal J, N
        out = []
        for name, v in sorted(_instances().items()):
            j = J.value_to_json(v)
            out.append((name, json.dumps(j, sort_keys=True, default=repr), repr(N.normalize(v))))
            if isinstance(v, code_data.CodeData):
                out.append((name + ":loaded", repr(J.code_data_from_json(json.loads(json.dumps(j))))))
        return out
    base = run()
    saved = [(m, k, getattr(m, k)) for m, k in gates]
    saved_sys = [(m, m.sys) for m in mods if hasattr(m, "sys")]

    class FakeSys:
        """stands for the `sys` module inside the library's modules: only version_info differs"""

        def __init__(self, vi):
            self.version_info = vi

        def __getattr__(self, name):
            return getattr(sys, name)
    try:
        for m, k, v in saved:
            setattr(m, k, not v)
        for other in ((3, 7, 16, "final", 0), (3, 10, 13, "final", 0), (3, 13, 0, "final", 0)):
            for m, _ in saved_sys:
                m.sys = FakeSys(other)
            flipped = run()
            ctx.prove("same_results_with_gates_flipped_and_version_%d.%d" % other[:2], z3.BoolVal(flipped == base),
                      detail=repr([a[0] for a, b in zip(base, flipped) if a != b][:3]))
        # gates read at *import* time: re-import the codec and normalize while the gates of the other modules are flipped
        closure = [sys.modules[n] for n in ("code_data.dataclass_hide_default", "code_data._json_data", "code_data._normalize") if n in sys.modules]
        try:
            for m in closure:
                importlib.reload(m)
            J2, N2 = sys.modules["code_data._json_data"], sys.modules["code_data._normalize"]
            J, N = J2, N2
            flipped = run()
        finally:
            for m, k, v in saved:
                if hasattr(m, k):
                    setattr(m, k, v)
            for m in closure:
                importlib.reload(m)
            J, N = sys.modules["code_data._json_data"], sys.modules["code_data._normalize"]
        if True:
            other = (0, 0)
            ctx.prove("same_results_when_imported_under_flipped_gates", z3.BoolVal(flipped == base),
                      detail=repr([a[0] for a, b in zip(base, flipped) if a != b][:3]))
    finally:
        for m, k, v in saved:
            setattr(m, k, v)
        for m, old in saved_sys:
            m.sys = old


@harness("config.version_gates_as_written", props=["C01", "C02", "C03", "C10", "C13"], functions=["code_data._blocks._ATLEAST_310", "code_data._line_mapping.USE_LINETABLE", "code_data._code_data (sys.version_info tests)"],
         configs="all",
         notes="the engine sets the version gates explicitly, so the gate *definitions* are evaluated here from source with the interpreter's real sys.version_info 5-tuple: "
               "_ATLEAST_310 and USE_LINETABLE are true exactly from 3.10, and the inline tests in _code_data select the positional-only branch exactly from 3.8")
def h_gate_definitions(ctx, cfg):
    import types as _t
    ver = tuple(cfg.tables["version"][:3]) + ("final", 0)
    fake_sys = _t.SimpleNamespace(version_info=ver)
    want310 = ver[:2] >= (3, 10)
    for f, name in (("_blocks.py", "_ATLEAST_310"), ("_line_mapping.py", "USE_LINETABLE")):
        tree = ast.parse(open(os.path.join(PKG(), f), encoding="utf-8").read())
        defs = [n for n in tree.body if isinstance(n, ast.Assign) and len(n.targets) == 1 and isinstance(n.targets[0], ast.Name) and n.targets[0].id == name]
        if len(defs) != 1:
            raise rewrite.BindingError("%s: gate %s is no longer a single module-level assignment" % (f, name))
        val = eval(compile(ast.Expression(defs[0].value), f, "eval"), {"sys": fake_sys})
        ctx.prove("gate[%s]_true_exactly_from_3.10" % name, z3.BoolVal(bool(val) == want310), detail="%s = %s evaluates to %r under %r" % (name, ast.unparse(defs[0].value), val, ver))
    tree = ast.parse(open(os.path.join(PKG(), "_code_data.py"), encoding="utf-8").read())
    tests = [n.test for n in ast.walk(tree) if isinstance(n, ast.If) and "version_info" in ast.unparse(n.test)]
    ctx.prove("inline_version_tests_found", z3.BoolVal(len(tests) >= 2))
    for i, t in enumerate(tests):
        val = eval(compile(ast.Expression(t), "_code_data.py", "eval"), {"sys": fake_sys})
        ctx.prove("inline_test_selects_the_posonly_branch_exactly_from_3.8#%d" % i, z3.BoolVal(bool(val) == (ver[:2] >= (3, 8))), detail="%s -> %r under %r" % (ast.unparse(t), val, ver))


EQUAL_BUT_DISTINCT = [((1, 2), (1.0, 2.0)), (0.0, -0.0), ((True, False), (1, 0)), (1, True), (1, 1.0), ((0.0, 1), (-0.0, True)), (frozenset([1]), frozenset([1.0])), (b"x", b"x"), ((..., 1), (..., 1))]


def _exact(a, b):
    """type- and bit-exact equality"""
    if type(a) is not type(b):
        return False
    if isinstance(a, float):
        import struct
        return struct.pack(">d", a) == struct.pack(">d", b)
    if isinstance(a, (tuple, list)):
        return len(a) == len(b) and all(_exact(x, y) for x, y in zip(a, b))
    if isinstance(a, frozenset):
        return len(a) == len(b) and all(any(_exact(x, y) for y in b) for x in a)
    if isinstance(a, dict):
        return list(a) == list(b) and all(_exact(a[k], b[k]) for k in a)
    return a == b


@harness("frame.results_depend_only_on_the_argument", props=["C12", "C05", "C07", "C02", "C14"],
         functions=["code_data._normalize.normalize", "code_data._json_data.value_to_json", "code_data._constants.to_constant", "code_data._constants.constant_key"], configs="any", engine="E2",
         notes="bounded (9 pairs of ==-equal but CPython-distinct values, called one after the other in one process): normalize, value_to_json, constant_key and to_constant return, for the second "
               "value, exactly what they return for it in isolation (no stale result of an equal-looking earlier argument), and value_to_json never returns the same mutable object twice")
def h_no_stale(ctx, cfg):
    import types as _t
    import code_data
    import code_data._constants as C
    import code_data._json_data as J
    import code_data._normalize as N
    from code_data import Constant
    for a, b in EQUAL_BUT_DISTINCT:
        ra, rb = N.normalize(a), N.normalize(b)
        ctx.prove("normalize.second_of_an_equal_pair_is_not_a_stale_result", z3.BoolVal(_exact(ra, a) and _exact(rb, b)), detail="%r, %r -> %r, %r" % (a, b, ra, rb))
        ca, cb = N.normalize(Constant(a, 1)), N.normalize(Constant(b, 2))
        ctx.prove("normalize.constant_payload_kept_exactly", z3.BoolVal(_exact(ca.constant, a) and _exact(cb.constant, b)))
        ja, jb = J.value_to_json(a), J.value_to_json(b)
        ja2, jb2 = J.value_to_json(a), J.value_to_json(b)
        ctx.prove("value_to_json.second_of_an_equal_pair_is_not_a_stale_result", z3.BoolVal(_exact(jb, jb2) and _exact(ja, ja2) and _exact(J.constant_value_from_json(jb), b) and _exact(J.constant_value_from_json(ja), a)),
                  detail="%r -> %r ; %r -> %r" % (a, ja, b, jb))
        for x, y in ((ja, ja2), (jb, jb2)):
            if isinstance(x, (dict, list)):
                ctx.prove("value_to_json.returns_a_fresh_container_every_time", z3.BoolVal(x is not y))
        ka, kb = C.constant_key(a), C.constant_key(b)
        ctx.prove("constant_key.distinct_for_the_distinct_pair", z3.BoolVal((ka == kb) == _exact(a, b)))
    e1, e2 = J.value_to_json(...), J.value_to_json(...)
    ctx.prove("value_to_json.ellipsis_encoding_is_fresh", z3.BoolVal(e1 is not e2 and e1 == e2))
    # to_constant: two code objects that compare equal (code equality ignores file name and line table) must each be decoded
    saved = code_data.CodeData.from_code
    calls = []
    try:
        code_data.CodeData.from_code = classmethod(lambda cls, c: (calls.append(c), ("decoded", c.co_filename, id(c)))[1])
        c1 = compile("def f():\n    return 1\n", "a.py", "exec").co_consts[0]
        c2 = compile("def f():\n    return 1\n", "b.py", "exec").co_consts[0]
        r1, r2 = C.to_constant(c1), C.to_constant(c2)
        ctx.prove("to_constant.equal_looking_code_objects_are_each_decoded", z3.BoolVal(c1 == c2 and r1 == ("decoded", "a.py", id(c1)) and r2 == ("decoded", "b.py", id(c2)) and len(calls) == 2), detail=repr((r1, r2)))
    finally:
        code_data.CodeData.from_code = saved


@harness("equality.every_field_the_encoder_reads_participates_in_eq_and_hash", props=["C08"], functions=["code_data (data classes)", "code_data._code_data.from_code_data", "code_data._blocks.blocks_to_bytes"],
         configs="any",
         notes="'equal CodeData encode to identical code objects' = determinism of to_code (C12 frame) + equality looks at everything to_code reads: every data-class field whose name is "
               "read as an attribute anywhere in the encoder (from_code_data, blocks_to_bytes, from_arg, the line-table writer, args_to_input) or the JSON writer has compare=True and is "
               "not excluded from the hash; no data class other than Constant defines its own __eq__/__hash__")
def h_eq_fields(ctx, cfg):
    import dataclasses
    import code_data as cd
    reads = set()
    for f in ("_code_data.py", "_blocks.py", "_line_mapping.py", "_args.py", "_constants.py"):
        for n in ast.walk(ast.parse(open(os.path.join(PKG(), f), encoding="utf-8").read())):
            if isinstance(n, ast.Attribute):
                reads.add(n.attr)
    n = 0
    for name in ("CodeData", "Instruction", "Jump", "Name", "Varname", "Constant", "Freevar", "Cellvar", "NoArg", "Args", "Function", "AdditionalLine"):
        cls = getattr(cd, name)
        for f in dataclasses.fields(cls):
            n += 1
            if f.name in reads:
                ctx.prove("field_participates_in_eq[%s.%s]" % (name, f.name), z3.BoolVal(bool(f.compare)), detail="compare=%r" % f.compare)
                ctx.prove("field_participates_in_hash[%s.%s]" % (name, f.name), z3.BoolVal(f.hash is None or bool(f.hash)), detail="hash=%r" % f.hash)
        own = [m for m in ("__eq__", "__hash__", "__ne__") if m in cls.__dict__ and getattr(cls.__dict__[m], "__qualname__", "").startswith(name + ".") and
               "__create_fn__" not in getattr(cls.__dict__[m], "__qualname__", "") and getattr(cls.__dict__[m], "__module__", None) == cls.__module__ and
               getattr(getattr(cls.__dict__[m], "__code__", None), "co_filename", "").endswith("__init__.py")]
        ctx.prove("generated_eq_and_hash[%s]" % name, z3.BoolVal(not own or name == "Constant"), detail=repr(own))
    ctx.prove("fields_found", z3.BoolVal(n >= 30))


# names that only exist on newer interpreters: methods whatever the receiver (unambiguous names only), and module functions by qualified name
NEWER_METHODS = {"removeprefix": "3.9", "removesuffix": "3.9", "bit_count": "3.10", "cached_property": "3.8", "is_relative_to": "3.9", "with_stem": "3.9", "hardlink_to": "3.10"}
NEWER_FUNCTIONS = {("math", "prod"): "3.8", ("math", "isqrt"): "3.8", ("math", "comb"): "3.8", ("math", "perm"): "3.8", ("math", "dist"): "3.8", ("math", "lcm"): "3.9", ("math", "nextafter"): "3.9",
                   ("math", "ulp"): "3.9", ("ast", "unparse"): "3.9", ("itertools", "pairwise"): "3.10", ("statistics", "fmean"): "3.8", ("functools", "cache"): "3.9", ("ast", "get_source_segment"): "3.8"}


@harness("portability.no_construct_that_only_newer_interpreters_evaluate", props=["C15", "C07", "C01"], functions=["code_data (all library modules)"], configs="any",
         notes="every library module parses with the 3.7 grammar (no walrus, no positional-only marker, no match, no parenthesised context managers), and no expression that is "
               "*evaluated at run time* (i.e. outside annotations, which `from __future__ import annotations` keeps unevaluated) subscripts a builtin container type (`list[int]`: TypeError "
               "before 3.9) or combines types with `|` (TypeError before 3.10); a construct under an explicit version test is undecided, not failed")
def h_portability(ctx, cfg):
    from pcv.core import Unsupported
    guarded = []
    n = 0
    for f, tree in _module_trees():
        if f == "_cli.py":
            continue
        src = open(os.path.join(PKG(), f), encoding="utf-8").read()
        try:
            ast.parse(src, feature_version=(3, 7))
            ok37 = True
        except SyntaxError as e:
            ok37 = False
        ctx.prove("parses_with_the_3.7_grammar[%s]" % f, z3.BoolVal(ok37))
        future_ann = any(isinstance(s, ast.ImportFrom) and s.module == "__future__" and any(a.name == "annotations" for a in s.names) for s in tree.body)
        ann_nodes = set()
        for node in ast.walk(tree):
            anns = []
            if isinstance(node, (ast.FunctionDef, ast.AsyncFunctionDef)):
                anns += [node.returns] + [a.annotation for a in node.args.posonlyargs + node.args.args + node.args.kwonlyargs + [node.args.vararg, node.args.kwarg] if a is not None]
            elif isinstance(node, ast.AnnAssign):
                anns.append(node.annotation)
            for a in anns:
                if a is not None and future_ann:
                    ann_nodes.update(id(x) for x in ast.walk(a))
        version_guarded = set()
        for node in ast.walk(tree):
            if isinstance(node, ast.If) and any(isinstance(x, ast.Attribute) and x.attr in ("version_info", "hexversion") or isinstance(x, ast.Name) and x.id in ("TYPE_CHECKING", "_ATLEAST_310", "USE_LINETABLE")
                                                 for x in ast.walk(node.test)):
                version_guarded.update(id(x) for x in ast.walk(node))
        for node in ast.walk(tree):
            bad = None
            if isinstance(node, ast.Subscript) and isinstance(node.value, ast.Name) and node.value.id in ("list", "dict", "tuple", "set", "frozenset", "type") and id(node) not in ann_nodes:
                bad = "run-time subscript of builtin type %s (line %d)" % (ast.unparse(node)[:40], node.lineno)
            elif (isinstance(node, ast.BinOp) and isinstance(node.op, ast.BitOr) and id(node) not in ann_nodes and
                  any(isinstance(s, ast.Name) and s.id in ("int", "str", "bytes", "float", "bool", "None", "list", "dict", "tuple", "set", "frozenset", "object", "complex") or
                      isinstance(s, ast.Constant) and s.value is None for s in (node.left, node.right))):
                bad = "run-time union of types %s (line %d)" % (ast.unparse(node)[:40], node.lineno)
            elif isinstance(node, ast.Attribute) and node.attr in NEWER_METHODS and isinstance(getattr(node, "ctx", None), ast.Load):
                bad = "method .%s() exists only from Python %s (line %d)" % (node.attr, NEWER_METHODS[node.attr], node.lineno)
            elif isinstance(node, ast.Attribute) and isinstance(node.value, ast.Name) and (node.value.id, node.attr) in NEWER_FUNCTIONS:
                bad = "%s.%s exists only from Python %s (line %d)" % (node.value.id, node.attr, NEWER_FUNCTIONS[(node.value.id, node.attr)], node.lineno)
            elif isinstance(node, ast.Call) and isinstance(node.func, ast.Name) and node.func.id == "zip" and any(k.arg == "strict" for k in node.keywords):
                bad = "zip(strict=...) exists only from Python 3.10 (line %d)" % node.lineno
            if bad:
                n += 1
                if id(node) in version_guarded:
                    guarded.append("%s: %s" % (f, bad))
                else:
                    ctx.prove("no_runtime_generic_alias_or_type_union[%s]" % f, z3.BoolVal(False), detail=bad)
        ctx.prove("no_runtime_generic_alias_or_type_union[%s]" % f, z3.BoolVal(True))
    if guarded:
        raise Unsupported("constructs under a version test: %s" % "; ".join(guarded[:4]))
