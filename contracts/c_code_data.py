"""Contracts for code_data/_code_data.py (C01 header, C04 docstring/kind, C11 nothing silently dropped).

`to_code_data` and `from_code_data` are verified *modularly*: every callee is replaced by a stub that carries its contract (each of
those contracts is discharged on the real callee elsewhere: c_flags, c_args, c_blocks, c_line_mapping), so a caller is checked
against the callee's contract, not its body.  The flag set is a finite set with symbolic membership (each `in`, `len`, truthiness
test forks once).
"""
from __future__ import annotations

import itertools
import types

import z3

import code_data._code_data as CD
from code_data import Args, CodeData, Function

from pcv import rewrite
from pcv.core import Ctx, SymBool, SymInt, Unsupported, plen, sem
from pcv.registry import harness
from .c_flags import spec_defined_flags
from .util import Z, cached


class SymFlagSet:
    """finite set over the flag-name universe; membership of each name is a z3 Bool, decided (forked) on first use"""

    def __init__(self, mem):
        self.mem = dict(mem)
        self.decided = {}        # name -> the value its original membership took on this path

    @staticmethod
    def fresh(prefix, names):
        return SymFlagSet({k: z3.Bool(prefix + k) for k in names})

    def _has(self, k):
        m = self.mem.get(k, False)
        if isinstance(m, bool):
            return m
        d = Ctx.cur.decide(m)
        self.mem[k] = d
        self.decided.setdefault(k, d)
        p = getattr(self, "parent", None)
        if p is not None and not isinstance(p.mem.get(k, False), bool):
            p.mem[k] = d
        return d

    def __contains__(self, k):
        return self._has(k)

    def __isub__(self, other):
        for k in other:
            self.mem[k] = False
        return self

    def __ior__(self, other):
        for k in other:
            self.mem[k] = True
        return self

    def __and__(self, other):
        r = SymFlagSet({k: self.mem.get(k, False) for k in other})
        r.decided = self.decided        # decisions taken through a derived set are decisions about the original memberships
        r.parent = self
        return r

    __rand__ = __and__

    def __iter__(self):
        return iter([k for k in list(self.mem) if self._has(k)])

    def plen(self):
        return sum(1 for k in list(self.mem) if self._has(k))

    def __len__(self):
        return self.plen()

    def __bool__(self):
        if any(m is True for m in self.mem.values()):
            return True
        syms = [(k, m) for k, m in self.mem.items() if not isinstance(m, bool)]
        if not syms:
            return False
        r = Ctx.cur.decide(z3.Or(*[m for _, m in syms]))
        if not r:
            for k, _ in syms:
                self.mem[k] = False
                self.decided.setdefault(k, False)
        return r

    def pop(self):
        for k in list(self.mem):
            if self._has(k):
                self.mem[k] = False
                return k
        raise sem(KeyError("pop from an empty set"))

    def remove(self, k):
        if not self._has(k):
            raise sem(KeyError(k))
        self.mem[k] = False

    # the rest of the `set` API, by the same forking membership test (mutators return None, as set's do)
    def _derived(self, mem):
        r = SymFlagSet(mem)
        r.decided = self.decided
        r.parent = self
        return r

    def copy(self):
        return self._derived(self.mem)

    def add(self, k):
        self.mem[k] = True

    def discard(self, k):
        self.mem[k] = False

    def clear(self):
        for k in list(self.mem):
            self.mem[k] = False

    def update(self, *others):
        for o in others:
            self.__ior__(o)

    def difference_update(self, *others):
        for o in others:
            self.__isub__(o)

    def intersection_update(self, *others):
        for o in others:
            keep = set(o)
            for k in list(self.mem):
                if k not in keep:
                    self.mem[k] = False

    def __iand__(self, other):
        self.intersection_update(other)
        return self

    def __sub__(self, other):
        r = self.copy()
        r.difference_update(other)
        return r

    difference = __sub__

    def __or__(self, other):
        r = self.copy()
        r.update(other)
        return r

    union = __or__
    __ror__ = __or__

    def intersection(self, other):
        return self.__and__(other)

    def issubset(self, other):
        return all(k in other for k in self)

    __le__ = issubset

    def issuperset(self, other):
        return all(self._has(k) for k in other)

    __ge__ = issuperset

    def __lt__(self, other):
        return self.issubset(other) and self.plen() < len(other)

    def __gt__(self, other):
        return self.issuperset(other) and self.plen() > len(other)

    def isdisjoint(self, other):
        return not any(self._has(k) for k in other)

    def __eq__(self, other):
        if isinstance(other, (set, frozenset, SymFlagSet)):
            return self.issubset(other) and self.issuperset(other)
        return NotImplemented

    def __ne__(self, other):
        r = self.__eq__(other)
        return r if r is NotImplemented else not r

    __hash__ = None

    def snapshot(self):
        return dict(self.mem)

    def concrete(self):
        return {k for k, m in self.mem.items() if m is True}


class ArgsStub:
    """what callers may observe of the Args returned by args_from_input: its truthiness (= it has parameters)"""

    def __init__(self, argcount, kwonly, va, vk, posonly=0):
        self.n = (argcount, kwonly, va, vk)
        self.argcount, self.kwonly, self.va, self.vk, self.posonly = argcount, kwonly, va, vk, posonly

    def __bool__(self):
        a, k, va, vk = self.n
        return bool(SymBool(z3.Or(Z(a) + Z(k) > 0, z3.BoolVal(bool(va or vk)))))

    def __len__(self):
        raise Unsupported("len(Args stub)")


class StrConst:
    """an opaque constant that is a str"""


class FunctionStub:
    def __init__(self, args, docstring, type):
        self.args, self.docstring, self.type = args, docstring, type


def glue_ns():
    return cached("_code_data", lambda: rewrite.load(CD, ["to_code_data", "from_code_data"], hooks={"len": plen, "isinstance": lambda x, t: True if (isinstance(x, StrConst) and t is str) or (isinstance(x, FunctionStub) and t is Function) else isinstance(x, t)}, tag="_code_data"))


def _to_stubs(ctx, ns0, F0, log, cap):
    ns = ns0      # the functions' own globals: the stubs must be visible to the code under test

    class LM:
        def modify_line_offsets(self, n):
            log.append(("modify_line_offsets", n))

        def pop_additional_line(self, n):
            log.append(("pop_additional_line", n))
            return "NEXT-LINE"
    lm = LM()
    ns["to_line_mapping"] = lambda code: (log.append(("to_line_mapping", code)), lm)[1]
    ns["to_constant"] = lambda v: v
    ns["to_flags_data"] = lambda f: (log.append(("to_flags_data", f)), F0)[1]

    def args_from_input(inp):       # contract of args_from_input (proved on the real function in c_args)
        fd = inp.flags_data
        va, vk = "VARARGS" in fd, "VARKEYWORDS" in fd
        if va:
            fd.remove("VARARGS")
        if vk:
            fd.remove("VARKEYWORDS")
        a = ArgsStub(inp.argcount, inp.kwonlyargcount, va, vk, inp.posonlyargcount)
        log.append(("args_from_input", inp, a))
        return a
    ns["args_from_input"] = args_from_input

    def bytes_to_blocks(*a):
        log.append(("bytes_to_blocks", a, lm))
        return ("BLOCKS", "ADDITIONAL-ARGS")
    ns["bytes_to_blocks"] = bytes_to_blocks

    def CodeDataStub(**kw):
        cap.update(kw)
        return "CODE-DATA"
    ns["CodeData"] = CodeDataStub
    ns["Function"] = lambda args, doc, tp: ("Function", args, doc, tp)
    return ns, lm


def _register_to():
    for consts_case, free_case in itertools.product(["empty", "str", "nonstr", "emptystr", "int", "bytes", "tuple"], [False, True]):
        def h(ctx, cfg, consts_case=consts_case, free_case=free_case):
            ns0 = glue_ns()
            names = sorted(spec_defined_flags(cfg).values())
            F0 = SymFlagSet.fresh("f_", names)
            orig = F0.snapshot()
            ctx.input("flags", orig)
            log, cap = [], {}
            ns, lm = _to_stubs(ctx, ns0, F0, log, cap)
            a, k, p = (ctx.input(n, SymInt.fresh(n)) for n in ("co_argcount", "co_kwonlyargcount", "co_posonlyargcount"))
            ctx.assume(z3.And(a.z >= 0, k.z >= 0, p.z >= 0, p.z <= a.z), "pre: WF counts")
            s0 = StrConst()
            consts = {"empty": (), "str": (s0, 1), "nonstr": (None, s0), "emptystr": ("", 1), "int": (7, s0), "bytes": (b"not a docstring",), "tuple": (("a", "b"), None)}[consts_case]
            first = ctx.input("co_firstlineno", SymInt.fresh("first"))
            code = types.SimpleNamespace(co_posonlyargcount=p, co_argcount=a, co_kwonlyargcount=k, co_varnames=("v0", "v1"), co_flags="WORD",
                                         co_consts=consts, co_freevars=("x",) if free_case else (), co_cellvars=(), co_code=b"\x00\x00\x01\x00", co_names=("nm",),
                                         co_firstlineno=first, co_stacksize=7, co_filename="file.py", co_name="name" if not free_case else "<listcomp>")
            ns["sys"] = types.SimpleNamespace(version_info=cfg.vt)

            def bit(name):
                return orig.get(name, z3.BoolVal(False))
            try:
                ns["to_code_data"](code)
            except (ValueError, AssertionError, KeyError):
                ctx.reached("outcome.raises (always allowed by C11: raise rather than drop)")
                return
            ctx.reached("outcome.returns")
            tp = cap["type"]
            is_fn = z3.And(bit("NEWLOCALS"), bit("OPTIMIZED"))
            ctx.prove("post.type_is_Function_iff_both_function_flags(C04)", is_fn if tp is not None else z3.Not(z3.Or(bit("NEWLOCALS"), bit("OPTIMIZED"))))
            if tp is not None:
                _, args, doc, kind = tp
                want_doc = consts[0] if consts_case in ("str", "emptystr") else None
                ctx.prove("post.docstring_is_first_constant_iff_it_is_a_str(C04)", z3.BoolVal((doc is want_doc or doc == want_doc) if want_doc is not None else doc is None),
                          detail="docstring %r, co_consts[0] %r" % (doc, consts[:1]))
                for kname in ("GENERATOR", "COROUTINE", "ASYNC_GENERATOR"):
                    ctx.prove("post.kind_%s_iff_flag(C04)" % kname, bit(kname) == z3.BoolVal(kind == kname))
                af = [e for e in log if e[0] == "args_from_input"][0]
                ctx.prove("post.function_args_are_args_from_input's_result", z3.BoolVal(args is af[2]))
            else:
                af = [e for e in log if e[0] == "args_from_input"][0]
                ctx.prove("post.non_function_code_has_no_parameters", z3.And(Z(af[1].argcount) + Z(af[1].kwonlyargcount) == 0, z3.Not(z3.Or(bit("VARARGS"), bit("VARKEYWORDS")))))
            ctx.prove("post._nested_iff_CO_NESTED", bit("NESTED") == z3.BoolVal(bool(cap["_nested"])))
            ctx.prove("post.future_annotations_iff_flag", bit("annotations") == z3.BoolVal(bool(cap["future_annotations"])))
            ctx.prove("post.NOFREE_iff_no_free_and_no_cell_variables", bit("NOFREE") == z3.BoolVal(not free_case))
            consumed = {"NEWLOCALS", "OPTIMIZED", "VARARGS", "VARKEYWORDS", "NESTED", "NOFREE", "annotations", "GENERATOR", "COROUTINE", "ASYNC_GENERATOR"}
            for other in names:
                if other not in consumed:
                    ctx.prove("post.no_silent_drop[%s](C11)" % other, z3.Not(bit(other)))
            inp = af[1]
            ctx.prove("glue.args_input.argcount", Z(inp.argcount) == a.z)
            ctx.prove("glue.args_input.kwonlyargcount", Z(inp.kwonlyargcount) == k.z)
            ctx.prove("glue.args_input.posonlyargcount", Z(inp.posonlyargcount) == (p.z if cfg.vt >= (3, 8) else 0))
            ctx.prove("glue.args_input.varnames", z3.BoolVal(inp.varnames is code.co_varnames))
            ctx.prove("glue.first_line_number", Z(cap["first_line_number"]) == first.z)
            ctx.prove("glue.header_fields_passed_through", z3.BoolVal(cap["stacksize"] == 7 and cap["filename"] == "file.py" and cap["name"] == code.co_name and cap["freevars"] is code.co_freevars
                                                                       and cap["blocks"] == "BLOCKS" and cap["_additional_args"] == "ADDITIONAL-ARGS" and cap["_additional_line"] == "NEXT-LINE"))
            b2b = [e for e in log if e[0] == "bytes_to_blocks"][0][1]
            ctx.prove("glue.bytes_to_blocks_receives_the_tables_in_order",
                      z3.BoolVal(b2b[0] is code.co_code and b2b[1] is lm and b2b[2] is code.co_names and b2b[3] is code.co_varnames and b2b[4] is code.co_freevars and b2b[5] is code.co_cellvars
                                 and b2b[6] == tuple(consts) and b2b[7] is tp and b2b[8] is af[2]))
            ml = [e for e in log if e[0] == "modify_line_offsets"]
            ctx.prove("glue.lines_made_absolute_with_co_firstlineno", z3.BoolVal(len(ml) == 1) if len(ml) != 1 else Z(ml[0][1]) == first.z)
            order = [e[0] for e in log]
            ctx.prove("glue.line_offsets_shifted_before_blocks_are_built", z3.BoolVal(order.index("modify_line_offsets") < order.index("bytes_to_blocks") < order.index("pop_additional_line")))
            ctx.prove("glue.additional_line_popped_at_len(co_code)", z3.BoolVal([e for e in log if e[0] == "pop_additional_line"][0][1] == len(code.co_code)))
        harness("glue.to_code_data.modular[consts=%s,free=%d]" % (consts_case, free_case), props=["C01", "C04", "C11", "C05", "C02"], functions=["code_data._code_data.to_code_data"], configs="all", cost=8,
                assumes=["callee contracts: to_flags_data, args_from_input, bytes_to_blocks, to_line_mapping (each discharged on the real callee by its own harness)",
                         "Args truthiness == it has parameters (Args.__len__ contract)"],
                notes="symbolic flag set over all defined flags (each test forks once), symbolic counts: returns only if every flag was consumed into a field; "
                      "docstring/kind/NESTED/annotations/NOFREE inferred as CPython defines them; every header field passed through")(h)


_register_to()


def _from_stubs(ctx, ns0, log, cap, cells, has_args):
    ns = ns0
    ns["Function"], ns["CodeData"] = Function, CodeData      # undo the decoder-side stubs (shared globals)

    class LM:
        def add_additional_line(self, al, n):
            log.append(("add_additional_line", al, n))

        def modify_line_offsets(self, n):
            log.append(("modify_line_offsets", n))
    lm = LM()
    varnames = ("a", "b", "loc")
    ns["blocks_to_bytes"] = lambda *a: (log.append(("blocks_to_bytes", a)), (b"\x01\x00\x02\x00\x03\x00", lm, ("names",), varnames, cells, ("c0", "c1")))[1]
    ns["from_constant"] = lambda v: ("code-const", v)

    def args_to_input(args, flags_data):       # contract of args_to_input (proved in c_args)
        if args.va:
            flags_data |= {"VARARGS"}
        if args.vk:
            flags_data |= {"VARKEYWORDS"}
        log.append(("args_to_input", args))
        return types.SimpleNamespace(argcount=args.argcount, posonlyargcount=args.posonly, kwonlyargcount=args.kwonly, varnames=("a", "b"), flags_data=flags_data)
    ns["args_to_input"] = args_to_input
    ns["from_flags_data"] = lambda fd: ("WORD", frozenset(fd))
    ns["from_line_mapping"] = lambda m: (log.append(("from_line_mapping", m)), "LINE-TABLE")[1]

    def CodeTypeStub(*a):
        cap["args"] = a
        return "CODE"
    ns["CodeType"] = CodeTypeStub
    return ns, lm, varnames


def _register_from():
    cases = itertools.product([None, "plain", "GENERATOR", "COROUTINE", "ASYNC_GENERATOR"], [False, True], [False, True], [False, True], [False, True], [False, True])
    for kind, va, vk, free, annotations, nested in cases:
        if kind is None and (va or vk):
            continue

        def h(ctx, cfg, kind=kind, va=va, vk=vk, free=free, annotations=annotations, nested=nested):
            ns0 = glue_ns()
            log, cap = [], {}
            for cells in ((), ("cell",)):
                log.clear(); cap.clear()
                ns, lm, varnames = _from_stubs(ctx, ns0, log, cap, cells, kind is not None)
                ns["sys"] = types.SimpleNamespace(version_info=cfg.vt)
                argc, pos, kw = (ctx.input(n, SymInt.fresh(n)) for n in ("argcount", "posonly", "kwonly"))
                first = ctx.input("first_line_number", SymInt.fresh("first"))
                args = types.SimpleNamespace(argcount=argc, posonly=pos, kwonly=kw, va=va, vk=vk)
                tp = None
                if kind is not None:
                    tp = Function.__new__(Function)
                    object.__setattr__(tp, "args", args)
                    object.__setattr__(tp, "docstring", None)
                    object.__setattr__(tp, "type", None if kind == "plain" else kind)
                al = "ADDITIONAL-LINE" if nested else None
                cd = types.SimpleNamespace(type=tp, blocks="BLOCKS", _additional_args="ADDL", freevars=("fv",) if free else (), _additional_line=al,
                                           future_annotations=annotations, _nested=nested, first_line_number=first, stacksize=9, filename="file.py", name="nm")
                try:
                    ns["from_code_data"](cd)
                except NotImplementedError:
                    ctx.prove("raise.NotImplementedError_only_for_positional_only_parameters_before_3.8", z3.And(z3.BoolVal(cfg.vt < (3, 8) and kind is not None), pos.z != 0))
                    continue
                if cfg.vt < (3, 8) and kind is not None:
                    ctx.prove("post.before_3.8_returns_only_without_positional_only_parameters(C03: refuses rather than re-kind them)", pos.z == 0)
                got = cap["args"]
                idx = (lambda i: i) if cfg.vt >= (3, 8) else (lambda i: i if i == 0 else i - 1)
                names = ["argcount", "posonlyargcount", "kwonlyargcount", "nlocals", "stacksize", "flags", "code", "consts", "names", "varnames", "filename", "name", "firstlineno", "linetable", "freevars", "cellvars"]
                if cfg.vt < (3, 8):
                    names.remove("posonlyargcount")
                ctx.prove("post.CodeType_arity", z3.BoolVal(len(got) == len(names)))
                g = dict(zip(names, got))
                if kind is not None:
                    ctx.prove("post.co_argcount", Z(g["argcount"]) == argc.z)
                    ctx.prove("post.co_kwonlyargcount", Z(g["kwonlyargcount"]) == kw.z)
                    if "posonlyargcount" in g:
                        ctx.prove("post.co_posonlyargcount", Z(g["posonlyargcount"]) == pos.z)
                else:
                    ctx.prove("post.no_parameters_without_function_type", z3.BoolVal(g["argcount"] == 0 and g["kwonlyargcount"] == 0 and g.get("posonlyargcount", 0) == 0))
                want = set()
                if kind is not None:
                    want |= {"NEWLOCALS", "OPTIMIZED"}
                    if kind != "plain":
                        want.add(kind)
                    if va:
                        want.add("VARARGS")
                    if vk:
                        want.add("VARKEYWORDS")
                if not free and not cells:
                    want.add("NOFREE")
                if annotations:
                    want.add("annotations")
                if nested:
                    want.add("NESTED")
                ctx.prove("post.co_flags_is_exactly_the_described_flag_set", z3.BoolVal(g["flags"] == ("WORD", frozenset(want))), detail="%r vs %r" % (g["flags"], sorted(want)))
                ctx.prove("post.co_nlocals_is_len(co_varnames)", z3.BoolVal(g["nlocals"] == len(varnames)))
                ctx.prove("post.tables_and_header_in_the_right_CodeType_positions",
                          z3.BoolVal(g["code"] == b"\x01\x00\x02\x00\x03\x00" and g["consts"] == (("code-const", "c0"), ("code-const", "c1")) and g["names"] == ("names",) and g["varnames"] is varnames
                                     and g["filename"] == "file.py" and g["name"] == "nm" and g["stacksize"] == 9 and g["linetable"] == "LINE-TABLE" and g["freevars"] == cd.freevars and g["cellvars"] is cells))
                ctx.prove("post.co_firstlineno", Z(g["firstlineno"]) == first.z)
                ml = [e for e in log if e[0] == "modify_line_offsets"]
                ctx.prove("post.lines_made_relative_to_first_line", z3.BoolVal(False) if len(ml) != 1 else Z(ml[0][1]) == -first.z)
                order = [e[0] for e in log]
                ctx.prove("post.line_table_built_after_offsets_are_relative", z3.BoolVal(order.index("modify_line_offsets") < order.index("from_line_mapping")))
                if nested:
                    aal = [e for e in log if e[0] == "add_additional_line"]
                    ctx.prove("post.additional_line_added_at_len(code)_before_the_shift", z3.BoolVal(len(aal) == 1 and aal[0][1] == "ADDITIONAL-LINE" and aal[0][2] == 6 and order.index("add_additional_line") < order.index("modify_line_offsets")))
                b2b = [e for e in log if e[0] == "blocks_to_bytes"][0][1]
                ctx.prove("post.blocks_to_bytes_receives(blocks, additional_args, freevars, type)", z3.BoolVal(b2b == ("BLOCKS", "ADDL", cd.freevars, tp)))
        harness("glue.from_code_data.modular[kind=%s,va=%d,vk=%d,free=%d,ann=%d,nested=%d]" % (kind, va, vk, free, annotations, nested), props=["C01", "C03", "C11", "C10", "C05", "C06"],
                functions=["code_data._code_data.from_code_data"], configs="all", cost=1,
                assumes=["callee contracts: blocks_to_bytes, args_to_input, from_flags_data, from_line_mapping, types.CodeType as a record constructor"],
                notes="complete case split over the data's kind/flags with symbolic counts and first line: CodeType receives exactly the described header, flag set and tables")(h)


_register_from()


@harness("glue.to_code_data.canary", props=["C11"], functions=["code_data._code_data.to_code_data"], configs="any", expect="failed",
         notes="known-false: to_code_data returns for every flag set")
def h_canary(ctx, cfg):
    ns0 = glue_ns()
    names = sorted(spec_defined_flags(cfg).values())
    F0 = SymFlagSet.fresh("f_", names)
    log, cap = [], {}
    ns, lm = _to_stubs(ctx, ns0, F0, log, cap)
    code = types.SimpleNamespace(co_posonlyargcount=0, co_argcount=0, co_kwonlyargcount=0, co_varnames=(), co_flags="WORD", co_consts=(), co_freevars=(), co_cellvars=(),
                                 co_code=b"", co_names=(), co_firstlineno=1, co_stacksize=1, co_filename="f", co_name="n")
    ns["sys"] = types.SimpleNamespace(version_info=cfg.vt)
    try:
        ns["to_code_data"](code)
    except (ValueError, AssertionError, KeyError):
        ctx.prove("canary.never_raises", z3.BoolVal(False))


@harness("glue.header_roundtrip.lemma", props=["C11", "C01", "C06"], functions=["code_data._code_data.to_code_data", "code_data._code_data.from_code_data"], configs="all", cost=10,
         assumes=["callee contracts as in the two modular harnesses; blocks_to_bytes reproduces the variable and cell tables (operand-table lemma of C01)"],
         notes="composition of the two modular contracts over a symbolic flag set and symbolic counts: whenever to_code_data returns, from_code_data of the captured fields passes CodeType "
               "exactly the original flag set and the original argcount / posonlyargcount / kwonlyargcount / nlocals / first line")
def h_header_lemma(ctx, cfg):
    ns0 = glue_ns()
    names = sorted(spec_defined_flags(cfg).values())
    for free_case, cell_case in ((False, False), (True, False), (False, True)):
        F0 = SymFlagSet.fresh("f_", names)
        log, cap = [], {}
        ns, lm = _to_stubs(ctx, ns0, F0, log, cap)
        ns["Function"] = FunctionStub
        a, k, p = (ctx.input(n, SymInt.fresh(n)) for n in ("co_argcount", "co_kwonlyargcount", "co_posonlyargcount"))
        ctx.assume(z3.And(a.z >= 0, k.z >= 0, p.z >= 0, p.z <= a.z), "pre: WF counts")
        if cfg.vt < (3, 8):
            ctx.assume(p.z == 0, "pre: no positional-only parameters before 3.8")
        first = ctx.input("co_firstlineno", SymInt.fresh("first"))
        cells = ("cell",) if cell_case else ()
        code = types.SimpleNamespace(co_posonlyargcount=p, co_argcount=a, co_kwonlyargcount=k, co_varnames=("v0", "v1", "v2"), co_flags="WORD", co_consts=(None,),
                                     co_freevars=("x",) if free_case else (), co_cellvars=cells, co_code=b"\x00\x00", co_names=(), co_firstlineno=first, co_stacksize=3,
                                     co_filename="f.py", co_name="nm")
        ns["sys"] = types.SimpleNamespace(version_info=cfg.vt)
        try:
            ns["to_code_data"](code)
        except (ValueError, AssertionError, KeyError):
            ctx.reached("decode.raises")
            continue
        original = {n for n, v in F0.decided.items() if v}
        ctx.prove("decode.every_flag_membership_was_examined_before_returning", z3.BoolVal(set(F0.decided) == set(names)), detail=repr(sorted(set(names) - set(F0.decided))))
        log2, cap2 = [], {}
        ns, lm2, varnames = _from_stubs(ctx, ns0, log2, cap2, cells, cap["type"] is not None)
        ns["Function"] = Function
        ns["blocks_to_bytes"] = lambda *x: (b"\x00\x00", lm2, (), code.co_varnames, cells, (None,))
        ns["sys"] = types.SimpleNamespace(version_info=cfg.vt)
        cd = types.SimpleNamespace(type=cap["type"], blocks=cap["blocks"], _additional_args=cap["_additional_args"], freevars=cap["freevars"], _additional_line=None,
                                   future_annotations=cap["future_annotations"], _nested=cap["_nested"], first_line_number=cap["first_line_number"], stacksize=cap["stacksize"],
                                   filename=cap["filename"], name=cap["name"])
        if cap["type"] is not None:
            # args_to_input's contract hands back the counts of the decoded Args and a varnames prefix of co_varnames
            ns["args_to_input"] = lambda args, fd: (fd.__ior__({"VARARGS"} if args.va else set()), fd.__ior__({"VARKEYWORDS"} if args.vk else set()),
                                                    types.SimpleNamespace(argcount=args.argcount, posonlyargcount=args.posonly, kwonlyargcount=args.kwonly, varnames=(), flags_data=fd))[2]
        ns["from_code_data"](cd)
        got = cap2["args"]
        fields = ["argcount", "posonlyargcount", "kwonlyargcount", "nlocals", "stacksize", "flags"]
        if cfg.vt < (3, 8):
            fields.remove("posonlyargcount")
        g = dict(zip(fields, got))
        ctx.prove("lemma.co_flags_reproduced_exactly", z3.BoolVal(g["flags"] == ("WORD", frozenset(original))), detail="%r vs %r" % (g["flags"], sorted(original)))
        ctx.prove("lemma.co_argcount_reproduced", Z(g["argcount"]) == a.z)
        ctx.prove("lemma.co_kwonlyargcount_reproduced", Z(g["kwonlyargcount"]) == k.z)
        if "posonlyargcount" in g:
            ctx.prove("lemma.co_posonlyargcount_reproduced", Z(g["posonlyargcount"]) == p.z)
        ctx.prove("lemma.co_nlocals_reproduced", z3.BoolVal(g["nlocals"] == len(code.co_varnames)))
        ctx.prove("lemma.co_stacksize_reproduced", z3.BoolVal(g["stacksize"] == 3))
