"""Contracts for code_data/_flags_data.py (C11, C01).

The flag word is modelled as independent booleans, one per flag CPython defines for the configured interpreter, plus one
boolean 'some other bit is set'.  `enum._decompose` is an external with an assumed contract (validated exhaustively by E3 on the
real interpreters): it returns (the members whose bit is contained in the value, the bits attributed to no member).
"""
from __future__ import annotations

import ast

import z3

import code_data._flags_data as F

from pcv import rewrite
from pcv.core import Ctx, Unsupported
from pcv.flagsets import GhostNameSet, GuardedSeq, GuardedValue, SymFlagWord, Truthy, accumulate_only, current_guard
from pcv.registry import harness
from .util import cached


def spec_defined_flags(cfg):
    """value -> name, read from the interpreter's tables independently of the library"""
    T = cfg.tables
    out = {int(k): v for k, v in T["COMPILER_FLAG_NAMES"].items()}
    for n in T["all_feature_names"]:
        f = T["future_flags"][n]
        if f and f not in out:
            out[f] = n
    return out


class Router(ast.NodeTransformer):
    """rule 1 for the listed external `enum._decompose` (an attribute call)"""

    def visit_Call(self, n):
        self.generic_visit(n)
        if isinstance(n.func, ast.Attribute) and n.func.attr == "_decompose" and isinstance(n.func.value, ast.Name) and n.func.value.id == "enum":
            rewrite.REWRITE_LOG.append(("external-contract", F.__name__, "to_flags_data", n.lineno, "enum._decompose"))
            n.func = ast.copy_location(ast.Name("pvhook_enum_decompose", ast.Load()), n.func)
        return n


def flags_ns():
    def build():
        import copy
        src = rewrite.Source.of(F)
        defs = []
        for q in ("to_flags_data", "from_flags_data"):
            node = copy.deepcopy(src.get_def(q))
            node = rewrite.BuiltinRouter({"set", "getattr"}, F.__name__, q).visit(node)
            node = Router().visit(node)
            loops = [n for n in ast.walk(node) if isinstance(n, ast.For)]
            if len(loops) != 1 or not accumulate_only(loops[0], {"flags_data", "flags"}, None):
                raise rewrite.BindingError("%s: the member loop is no longer accumulate-only (rule 6 side condition)" % q)
            rewrite.REWRITE_LOG.append(("generic-element-rule", F.__name__, q, loops[0].lineno, "guarded iteration over the candidate members"))
            defs.append(node)

        def h_decompose(enum_cls, value):
            if not isinstance(value, SymFlagWord):
                import enum
                return enum._decompose(enum_cls, value)
            members = [(m, value.bit(m.value)) for m in enum_cls]       # assumed contract of enum._decompose
            return GuardedSeq(members), Truthy(value.unknown([m.value for m in enum_cls]))

        def h_set(*a):
            return GhostNameSet() if not a else set(*a)

        def h_getattr(obj, name, *d):
            v = getattr(obj, name, *d)
            return GuardedValue(v.value, current_guard()) if obj is F._CodeFlag else v
        return rewrite.compile_defs(F, defs, {"pvhook_enum_decompose": h_decompose, "pvhook_set": h_set, "pvhook_getattr": h_getattr}, "_flags_data")
    return cached("_flags_data", build)


@harness("flags.enumeration_is_cpythons", props=["C11"], functions=["code_data._flags_data._CodeFlag"], configs="all",
         notes="the library's flag enumeration holds exactly the flags the interpreter defines (dis.COMPILER_FLAG_NAMES and the __future__ compiler flags), each a single bit (finite check)")
def h_enum(ctx, cfg):
    spec = spec_defined_flags(cfg)
    mine = {m.value: m.name for m in F._CodeFlag}
    ctx.prove("enumeration.values_equal_defined_flags", z3.BoolVal(set(mine) == set(spec)), detail="%r vs %r" % (sorted(mine), sorted(spec)))
    ctx.prove("enumeration.single_bits", z3.BoolVal(all(v and not (v & (v - 1)) for v in mine)))
    ctx.prove("enumeration.names_unique", z3.BoolVal(len(set(mine.values())) == len(mine)))


@harness("flags.to_flags_data.contract", props=["C11", "C01"], functions=["code_data._flags_data.to_flags_data"], configs="all",
         assumes=["contract of enum._decompose(cls, v): (members whose bit is contained in v, bits of v attributed to no member) - validated exhaustively by E3",
                  "rule 6 (generic-element rule): the member loop is accumulate-only (checked syntactically)"],
         notes="symbolic flag word over all defined bits + 'unknown bit' boolean: raises iff an undefined bit is set; otherwise the result holds name(k) exactly for the set bits")
def h_to(ctx, cfg):
    ns = flags_ns()
    spec = spec_defined_flags(cfg)
    w = SymFlagWord.fresh("f_")
    unknown = w.unknown(sorted(spec))
    ctx.input("flag_word", w.bv)
    try:
        res = ns["to_flags_data"](w)
    except ValueError:
        ctx.prove("raise.only_when_an_undefined_bit_is_set", unknown)
        return
    ctx.prove("post.returns_only_when_every_bit_is_defined(C11: no silent drop)", z3.Not(unknown))
    if isinstance(res, set):
        ctx.prove("post.empty_result_only_for_zero", z3.And(z3.BoolVal(res == set()), w.bv == 0))
        return
    byname = {m.name: m.value for m in F._CodeFlag}
    for name, val in sorted(byname.items()):
        ctx.prove("post.name_in_result_iff_bit_set[%s]" % name, res.has(name) == w.bit(val))
    ctx.prove("post.no_other_names", z3.BoolVal(set(res.mem) <= set(byname)))


@harness("flags.from_flags_data.contract", props=["C11", "C01", "C03"], functions=["code_data._flags_data.from_flags_data"], configs="all",
         assumes=["rule 6 (generic-element rule): the loop is accumulate-only (checked syntactically)"],
         notes="symbolic subset of the defined names: the word has bit(k) exactly for the names present and no other bit")
def h_from(ctx, cfg):
    ns = flags_ns()
    byname = {m.name: m.value for m in F._CodeFlag}
    s = GhostNameSet({n: z3.Bool("has_" + n) for n in byname})
    ctx.input("names", {n: g for n, g in s.mem.items()})
    w = ns["from_flags_data"](s)
    if isinstance(w, int):
        w = SymFlagWord.of_int(w)
    for n, v in sorted(byname.items()):
        ctx.prove("post.bit_set_iff_name_present[%s]" % n, w.bit(v) == s.has(n))
    ctx.prove("post.no_undefined_bit", z3.Not(w.unknown(sorted(byname.values()))))


@harness("flags.roundtrip", props=["C11", "C01"], functions=["code_data._flags_data.to_flags_data", "code_data._flags_data.from_flags_data"], configs="all",
         notes="from_flags_data(to_flags_data(f)) == f for every combination of defined flags (all 2^18 at once, symbolically), or to_flags_data raises")
def h_rt(ctx, cfg):
    ns = flags_ns()
    spec = spec_defined_flags(cfg)
    w = SymFlagWord.fresh("f_")
    ctx.input("flag_word", w.bv)
    try:
        res = ns["to_flags_data"](w)
    except ValueError:
        ctx.prove("raise.only_when_an_undefined_bit_is_set", w.unknown(sorted(spec)))
        return
    back = ns["from_flags_data"](res if not isinstance(res, set) else GhostNameSet())
    if isinstance(back, int):
        back = SymFlagWord.of_int(back)
    ctx.prove("roundtrip.from_flags_data(to_flags_data(f)) == f", back.bv == w.bv)


@harness("flags.to_flags_data.canary", props=["C11"], functions=["code_data._flags_data.to_flags_data"], configs="any", expect="failed",
         notes="known-false: to_flags_data never raises")
def h_canary(ctx, cfg):
    ns = flags_ns()
    w = SymFlagWord.fresh("f_")
    try:
        ns["to_flags_data"](w)
    except ValueError:
        ctx.prove("canary.never_raises", z3.BoolVal(False))
