"""Shared helpers for the contract modules."""
from __future__ import annotations

import z3

from pcv.core import Ctx, SymBool, SymInt, Unsupported, zint, sb  # noqa: F401

_CACHE = {}


def cached(key, thunk):
    """Load (re-read + rewrite + exec) once per worker process.  A BindingError (refactored code) propagates as
    Unsupported from inside the harness, so the obligation is *undecided*."""
    if key not in _CACHE:
        _CACHE[key] = thunk()
    return _CACHE[key]


def Z(x):
    return zint(x)


def in_range(x, lo, hi):
    """lo <= x <= hi as z3"""
    return z3.And(Z(x) >= lo, Z(x) <= hi)


def is_concrete_int(x):
    return isinstance(x, int) and not isinstance(x, bool)
